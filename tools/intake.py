#!/usr/bin/env python3
"""Confirm a sub-agent's seeded changes and keep the confirmed ones under /verif/seeded/.

  tools/intake.py C05 [/tmp/wt/C05/_seeded]

For each k: on a scratch copy of /repo (a) demo passes without the patch, (b) the patch
applies, (c) the pinned test-suite passes with it, (d) the demo fails with it.  Only then
it is copied to /verif/seeded/<prop>-<k>/ with meta.json."""

import json
import os
import shutil
import subprocess
import sys
import tempfile

VERIF = os.path.dirname(os.path.dirname(os.path.abspath(__file__)))
PY = "/venv/bin/python"


def main():
    prop = sys.argv[1]
    src = sys.argv[2] if len(sys.argv) > 2 and sys.argv[2] != "-" else "/tmp/wt/%s/_seeded" % prop
    label = sys.argv[3] if len(sys.argv) > 3 else ""
    for k in sorted(os.listdir(src)):
        d = os.path.join(src, k)
        if not os.path.exists(os.path.join(d, "patch.diff")):
            continue
        scratch = tempfile.mkdtemp(prefix="hv-intake-")
        try:
            repo = os.path.join(scratch, "repo")
            shutil.copytree("/repo", repo, ignore=shutil.ignore_patterns(".git", "__pycache__", "*.egg-info", ".pytest_cache", "_seeded"))
            subprocess.run(["git", "init", "-q"], cwd=repo, check=True)
            env = dict(os.environ, PYTHONDONTWRITEBYTECODE="1", PYTHONPATH=repo)
            demo = os.path.join(d, "demo.py")
            ran = {}
            a = subprocess.run([PY, demo], cwd=repo, env=env, capture_output=True, text=True, timeout=300)
            ran["demo_without_patch_exit"] = a.returncode
            p = subprocess.run(["git", "apply", os.path.join(d, "patch.diff")], cwd=repo, capture_output=True, text=True)
            ran["patch_applies"] = p.returncode == 0
            if p.returncode != 0:
                print(prop, k, "REJECTED: patch does not apply:", p.stderr[-200:])
                continue
            t = subprocess.run([PY, "-m", "pytest", "-q", "-p", "no:cacheprovider", "tests"], cwd=repo, env=env, capture_output=True, text=True, timeout=900)
            ran["tests_with_patch_exit"] = t.returncode
            ran["tests_summary"] = t.stdout.strip().splitlines()[-1] if t.stdout.strip() else ""
            b = subprocess.run([PY, demo], cwd=repo, env=env, capture_output=True, text=True, timeout=300)
            ran["demo_with_patch_exit"] = b.returncode
            ran["demo_with_patch_tail"] = (b.stdout + b.stderr)[-400:]
            ok = a.returncode == 0 and t.returncode == 0 and b.returncode != 0
            if not ok:
                print(prop, k, "REJECTED:", ran)
                continue
            dst = os.path.join(VERIF, "seeded", "%s-%s%s" % (prop, label, k))
            os.makedirs(dst, exist_ok=True)
            shutil.copy(os.path.join(d, "patch.diff"), dst)
            shutil.copy(demo, dst)
            notes = open(os.path.join(d, "notes.md")).read() if os.path.exists(os.path.join(d, "notes.md")) else ""
            with open(os.path.join(dst, "notes.md"), "w") as f:
                f.write(notes)
            meta = {"property": prop, "source": "independent sub-agent given only the property text and a scratch worktree",
                    "needs_to_manifest": notes.strip()[:1500],
                    "confirmed": {"how": "scratch copy of /repo: demo.py without patch; git apply; pinned pytest suite; demo.py with patch", **ran}}
            with open(os.path.join(dst, "meta.json"), "w") as f:
                json.dump(meta, f, indent=1)
            print(prop, k, "kept ->", dst)
        finally:
            shutil.rmtree(scratch, ignore_errors=True)


main()
