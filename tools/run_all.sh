#!/bin/bash
# usage: tools/run_all.sh <tier> <seed> [ids...]   - runs the checks one after another, prints one summary block each
tier=${1:-quick}; seed=${2:-0}; shift 2
ids=${@:-C01 C02 C03 C04 C05 C06 C07 C08 C09 C10 C11 C12 C13 C14 C15 C16 C17 C18 C19 C20}
cd "$(dirname "$0")/.."
rc=0
for id in $ids; do
  start=$(date +%s)
  env PYTHONDONTWRITEBYTECODE=1 PYTHONHASHSEED=0 VERIF_SEED=$seed /venv/bin/python -m hv check $id --tier $tier 2>&1 | grep -vE "^\s*$" | tail -15
  code=${PIPESTATUS[0]}
  echo "== $id tier=$tier seed=$seed exit=$code wall=$(( $(date +%s) - start ))s"
  [ $code -ne 0 ] && rc=1
done
exit $rc
