#!/usr/bin/env python3
"""Run checks against the seeded changes kept under /verif/seeded/<id>/.

  tools/seeded.py [ids...] [--tier quick] [--all-checks] [--in-repo]

Default: each patch is applied to a scratch copy of /repo (outside /repo and /verif), the
pinned test-suite and the demonstration are run there, then the owning property's check
(or every check with --all-checks) is run with HV_REPO pointing at the copy.  With
--in-repo the patch is applied to /repo itself (git apply) and undone straight afterwards
(git checkout -- .), as the brief describes.  Results -> seeded/RESULTS.json."""

import argparse
import json
import os
import shutil
import subprocess
import sys
import tempfile
from concurrent.futures import ThreadPoolExecutor

VERIF = os.path.dirname(os.path.dirname(os.path.abspath(__file__)))
REPO = "/repo"
PY = "/venv/bin/python"
ALL = ["C%02d" % i for i in range(1, 21)]


def run_one(sid, tier, all_checks, in_repo):
    d = os.path.join(VERIF, "seeded", sid)
    meta = json.load(open(os.path.join(d, "meta.json")))
    props = ALL if all_checks else [meta["property"]] + meta.get("also_run", [])
    res = {"id": sid, "property": meta["property"], "checks": {}}
    scratch = tempfile.mkdtemp(prefix="hv-seeded-")
    try:
        if in_repo:
            repo = REPO
            subprocess.run(["git", "-C", REPO, "apply", os.path.join(d, "patch.diff")], check=True)
        else:
            repo = os.path.join(scratch, "repo")
            shutil.copytree(REPO, repo, ignore=shutil.ignore_patterns(".git", "__pycache__", "*.egg-info", ".pytest_cache"))
            subprocess.run(["git", "init", "-q"], cwd=repo, check=True)
            p = subprocess.run(["git", "apply", os.path.join(d, "patch.diff")], cwd=repo, capture_output=True, text=True)
            if p.returncode != 0:
                res["error"] = "patch does not apply: " + p.stderr[-300:]
                return res
        env = dict(os.environ, PYTHONDONTWRITEBYTECODE="1", PYTHONPATH=repo, HV_REPO=repo, PYTHONHASHSEED="0")
        t = subprocess.run([PY, "-m", "pytest", "-q", "-p", "no:cacheprovider", "tests"], cwd=repo, env=env, capture_output=True, text=True, timeout=900)
        res["tests_pass"] = t.returncode == 0
        demo = os.path.join(d, "demo.py")
        if os.path.exists(demo):
            dm = subprocess.run([PY, demo], cwd=repo, env=env, capture_output=True, text=True, timeout=300)
            res["demo_fails_with_patch"] = dm.returncode != 0
        for pr in props:
            c = subprocess.run([PY, "-m", "hv", "check", pr, "--tier", tier], cwd=VERIF,
                               env=dict(env, HV_EVIDENCE_DIR=os.path.join(scratch, "ev"), HV_REPLAY_DIR=os.path.join(scratch, "rp")),
                               capture_output=True, text=True, timeout=7200)
            keys = [ln.strip()[:160] for ln in c.stdout.splitlines() if ln.startswith("  ")]
            res["checks"][pr] = {"exit": c.returncode, "keys": keys[:4]}
            if c.returncode not in (0, 1):
                res["checks"][pr]["tail"] = (c.stdout + c.stderr)[-600:]
        res["caught_by"] = [p for p, v in res["checks"].items() if v["exit"] == 1]
        return res
    finally:
        if in_repo:
            subprocess.run(["git", "-C", REPO, "checkout", "--", "."], check=True)
        shutil.rmtree(scratch, ignore_errors=True)


def main():
    ap = argparse.ArgumentParser()
    ap.add_argument("ids", nargs="*")
    ap.add_argument("--tier", default="quick")
    ap.add_argument("--all-checks", action="store_true")
    ap.add_argument("--in-repo", action="store_true")
    ap.add_argument("--jobs", type=int, default=6)
    ap.add_argument("--merge", action="store_true", help="with ids: replace / add their entries in seeded/RESULTS.json (dropping entries of changes that are no longer kept)")
    a = ap.parse_args()
    root = os.path.join(VERIF, "seeded")
    ids = sorted(x for x in os.listdir(root) if os.path.isdir(os.path.join(root, x)) and os.path.exists(os.path.join(root, x, "meta.json")))
    if a.ids:
        ids = [i for i in ids if any(i.startswith(x) or x in i for x in a.ids)]
    jobs = 1 if a.in_repo else a.jobs
    with ThreadPoolExecutor(max_workers=jobs) as ex:
        results = list(ex.map(lambda s: run_one(s, a.tier, a.all_checks, a.in_repo), ids))
    ok = True
    for r in results:
        st = "ERROR " + r["error"] if "error" in r else ("caught by " + ",".join(r["caught_by"]) if r.get("caught_by") else "MISSED")
        extra = "" if r.get("tests_pass", True) else " [breaks pinned tests]"
        extra += "" if r.get("demo_fails_with_patch", True) else " [demo does not fail]"
        print("%-28s %s%s" % (r["id"], st, extra))
        if not r.get("caught_by"):
            ok = False
            for p, v in r.get("checks", {}).items():
                if v["exit"] not in (0, 1):
                    print("   ", p, "exit", v["exit"], v.get("tail", "")[-300:])
    if not a.ids:
        with open(os.path.join(root, "RESULTS.json"), "w") as f:
            json.dump({"tier": a.tier, "all_checks": a.all_checks, "results": results}, f, indent=1)
    elif a.merge:
        path = os.path.join(root, "RESULTS.json")
        old = json.load(open(path))
        kept = set(x for x in os.listdir(root) if os.path.isdir(os.path.join(root, x)))
        by_id = {r["id"]: r for r in old["results"] if r["id"] in kept}
        for r in results:
            by_id[r["id"]] = r
        old["results"] = [by_id[k] for k in sorted(by_id)]
        with open(path, "w") as f:
            json.dump(old, f, indent=1)
        print("RESULTS.json now holds %d entries (%d not caught)" % (len(old["results"]), sum(1 for r in old["results"] if not r.get("caught_by"))))
    return 0 if ok else 1


if __name__ == "__main__":
    sys.exit(main())
