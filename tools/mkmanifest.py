#!/usr/bin/env python3
"""Regenerate /verif/MANIFEST.json from the table below (only checks whose module exists are claimed)."""
import json, os

HERE = os.path.dirname(os.path.dirname(os.path.abspath(__file__)))
CMD = "env PYTHONDONTWRITEBYTECODE=1 PYTHONHASHSEED=0 /venv/bin/python -m hv check {id} --tier {tier}"

T = {
 "C01": ("exploration", "reference HTML tokenizer + tree comparison at the API boundary; html.parser second opinion",
         "Every rendered string of random and catalogue-covering element trees (built through 20 construction routes incl. item assignment, one-shot iterators, rejected batches, shared containers) is tokenized by an independent strict tokenizer and compared node by node with the model tree; trees are also rendered, changed through the public API and rendered again. Held on the executions explored, which cover every catalogue and void name in every run.",
         "Trusts the harness tokenizer/charref decoder (cross-checked against stdlib html.parser) and stdlib html.unescape."),
 "C02": ("exploration", "runtime contract on live html_escape + placeholder-differential boundary oracle",
         "A contract on the real html_escape fires on every call; all 1,112,064 scalar values and all short metacharacter strings are driven through a matrix of about 65 child positions / insertion routes / short histories (after a trusted twin, after a failed raw-text rendering, renamed elements, head content, documents) and the emitted segment must unit-decode to the leaf without forging markup. Exhaustive for the enumerated sub-spaces, sampled beyond.",
         "Trusts stdlib html.unescape as the definition of character-reference decoding; layout around a leaf is assumed content-independent (a mismatch is itself reported)."),
 "C03": ("exploration", "runtime contract on live html_escape + provenance-consuming attribute-value oracle over the tokenized open tag",
         "Each attribute value region found by the independent tokenizer must consume, part by part, to the supplied plain (escaped under the 7-character attribute set) and HTML (verbatim) parts, for every way of supplying and merging values; per-code-point and short-string exhaustive, sampled beyond.",
         "Trusts the harness tokenizer and stdlib html.unescape."),
 "C04": ("exploration", "verbatim-occurrence monitor for trusted payloads + algebraic differential oracle for HTML concatenation",
         "Uniquely marked trusted payloads must occur byte-for-byte in every rendering path; every + / += / reflected + expression tree must yield HTML whose child rendering equals rendering the leaves as adjacent children and whose text consumes leaf by leaf (plain escaped once, HTML verbatim).",
         "Trusts the harness's expression interpreter and the charref unit decoder."),
 "C05": ("exploration", "trace monitor over the token stream of rendered trees with whitespace-free, uniquely-identified content",
         "For arbitrary nestings (including block-in-inline) every maximal inline subtree's concatenation must occur contiguously and every whitespace run must touch an open/close tag of a whitespace-enabled element; layout state-machine states observed are recorded via sys.monitoring.",
         "Content leaves contain no whitespace so every whitespace character in a text position is layout."),
 "C06": ("exploration", "reference layout renderer (written from the documented rules) compared for exact equality",
         "For validly nested trees the library output must equal an independent renderer of the documented line/indent rules, for all indent/eol; pairwise-exhaustive sibling-kind skeletons plus random trees.",
         "Trusts the reference renderer as a faithful reading of the statement and the Tag docstring."),
 "C07": ("exploration", "metamorphic monitor: rendering with vs without metadata nodes at enumerated position subsets",
         "For each base tree all 2^n subsets (n<=10) of metadata insertion points are rendered and must be byte-identical to the metadata-free rendering; dependency list must be exactly the inserted dependencies, resolved.",
         "Metamorphic relation only; the base rendering itself is judged by C01/C05/C06."),
 "C08": ("exploration", "purity monitor (structural fingerprints before/after every read-only call), repeatability log, identity-disjointness and equality oracles over operation histories",
         "Random histories of read-only operations over trees/documents/dependencies with fingerprints of receiver and arguments compared around every call, results compared across repeats, tagify() results checked for object-identity disjointness and mutual mutation independence, == checked against recipe equality and point mutations.",
         "Fingerprint walks __dict__/list/dict state generically; harness doubles' call counters are excluded."),
 "C09": ("exploration", "differential monitor against an independent recipe expander; error-path monitor",
         "render()/HTMLDocument.render() of trees with tagifiable doubles must equal the rendering of the independently expanded recipe (html, dependencies, fingerprint of tagify()); all sibling sequences up to length 5 over {plain, tf->0, tf->1, tf->3} enumerated; un-expanded non-self-rendering objects must raise.",
         "The harness doubles return already-tagified payloads, as the Tagifiable protocol requires."),
 "C10": ("exploration", "reference resolver with independent version ordering, checked by object identity; contract on live _resolve_dependencies; constructor fault matrix",
         "get_dependencies()/render() compared by identity and order with a reference resolver for all permutations of small multisets and random placements; validation matrix enumerated.",
         "Trusts the reference version comparison (dot-separated integers, trailing zeros insignificant)."),
 "C11": ("exploration", "independent document-assembly model compared exactly and structurally via the tokenizer",
         "The rendered document must equal the rendering of an independently assembled expected tree and satisfy structural head/body rules found by the tokenizer.",
         "Uses the library's own tag rendering (judged by C01-C07) to render the independently assembled tree."),
 "C12": ("fault_enumeration", "file-system audit-hook trace monitor + before/after directory snapshots; every subset of missing files",
         "URLs decoded by an independent percent-decoder must name byte-identical copies; audit events decide the no-touch-before-raise and copies-nothing clauses for every non-empty subset of missing listed files.",
         "sys.addaudithook sees every Python-level file-system mutation; snapshots use sha256."),
 "C13": ("exploration", "round-trip monitor with hostile field strings; end-tag scan; JSON-mode differential",
         "Serialised dependencies embedded in marked text must be recovered equal, once, in order, with all surrounding text intact, and no '</script' (any case) inside the element.",
         "Equality of dependencies is field-wise; head compared as rendered markup."),
 "C14": ("exploration", "class-invariant contract on every TagList mutator (incl. raising path) + model-based history checker",
         "Histories of child operations are stepped alongside an independent flatten model and compared after every step; unsupported arguments must raise TypeError and leave the list unchanged.",
         "Model is the statement's flattening rule; direct item assignment is monitored but never driven with un-normalised values."),
 "C15": ("exploration", "attribute-merge reference model compared after every step of construction/update histories",
         "Attribute dict (order, names, text, str/HTML type) must equal the model after any mix of dicts/keywords and later updates/assignments; consolidate_attrs differential.",
         "Model is the statement's rule."),
 "C16": ("exploration", "token-list reference model stepped alongside add_class/remove_class/add_style histories; css() model",
         "All histories of length <=4 over 4 tokens x 3 ops enumerated, random longer ones; failure atomicity of add_style via fingerprints.",
         "Model is the statement's rule."),
 "C17": ("fault_enumeration", "online trace monitor on Tag.__enter__/__exit__ and a recording outer hook; exception injected at every statement position",
         "Interpreted with-programs with an exception injected at every position; hook restoration asserted at each exit, deliveries exactly-once and ordered, children per flatten model.",
         "Programs never re-enter a finished tag (outside the statement)."),
 "C18": ("exploration", "cross-process digest comparison under many PYTHONHASHSEED values and in-process order permutations",
         "A fixed battery is rendered in child processes with different hash seeds and in different orders/histories; all digests, dependency orders and head_content names must agree; name equality iff content equality over a payload corpus.",
         "Battery is fixed by seed; a seed-dependent behaviour must show within the seeds tried."),
 "C19": ("exploration", "exhaustive enumeration of all tag functions with differential against Tag()",
         "All 113+66 functions and 17 re-exports checked for name, default whitespace flag (frozen classification cross-checked with scripts/generate_tags.py via ast), _add_ws handling, and argument pass-through on random argument lists.",
         "Frozen copy of the inline classification; disagreement with the generator script is inconclusive."),
 "C20": ("exploration", "purity monitor around JSXTag conversion + independent parser of the emitted React.createElement expression",
         "Component fingerprints before/after conversion, dependency surfacing vs recipe metadata, and the parsed expression tree vs the component recipe.",
         "Strings are free of backslashes and line breaks, as the statement says."),
}

def main():
    checks, na = [], []
    for pid in sorted(T):
        level, tech, text, note = T[pid]
        if not os.path.exists(os.path.join(HERE, "hv", "checks", pid.lower() + ".py")):
            na.append({"property_id": pid, "reason": "check not built yet in this round (planned in DESIGN.md section 4; runtime monitoring applies)"})
            continue
        checks.append({
            "property_id": pid,
            "quick_cmd": CMD.format(id=pid, tier="quick"),
            "thorough_cmd": CMD.format(id=pid, tier="thorough"),
            "evidence_file": f"/verif/evidence/{pid}.json",
            "replay_cmd_template": f"env PYTHONDONTWRITEBYTECODE=1 /venv/bin/python -m hv check {pid} --replay {{path}}",
            "engine": "hv",
            "level_claimed": {"category": level, "text": text, "design_ref": f"DESIGN.md section 4 ({pid})"},
            "level_note": note,
            "technique": "runtime monitoring: " + tech,
        })
    man = {
        "version": 1,
        "setup_cmd": "/venv/bin/python -c \"import sys; sys.dont_write_bytecode=True; sys.path.insert(0,'/verif'); import hv.loader\"",
        "hooks": {
            "guard": "HTMLTOOLS_VERIF",
            "enable": "no source hooks: monitors are installed from the harness by attribute patching at run time (hv/mon)",
            "baseline_off_cmd": "cd /repo && /venv/bin/python -m pytest -ra -q -p no:cacheprovider --timeout=900 --continue-on-collection-errors",
            "source_commits": [],
            "add_only": True,
        },
        "engines": [{"name": "hv", "path": "/verif/hv", "serves_properties": [c["property_id"] for c in checks],
                     "kind_free_text": "stdlib-only Python runtime-monitoring harness: contracts on live functions, reference-model oracles, trace monitors, fault injection"}],
        "checks": checks,
        "notes": "Exit 0 held / 1 violation (VIOLATION line) / 2 inconclusive (INCONCLUSIVE line). Known findings: /verif/known_findings.json.",
        "not_applicable": na,
    }
    with open(os.path.join(HERE, "MANIFEST.json"), "w") as f:
        json.dump(man, f, indent=1)
    print("claimed", len(checks), "not yet", len(na))

main()
