"""Minimal contract layer: wrap live functions / methods of the library by attribute
patching, count every evaluation, and report (never raise) on violation so the observed
execution is not disturbed.  Also handles the raising path (state after a raise)."""

from __future__ import annotations

import functools

_PATCHES = []  # (owner, attr, original)


def patch(owner, attr, new):
    orig = owner.__dict__[attr] if isinstance(owner, type) and attr in owner.__dict__ else getattr(owner, attr)
    _PATCHES.append((owner, attr, orig, attr in getattr(owner, "__dict__", {})))
    setattr(owner, attr, new)
    return orig


def unpatch_all():
    while _PATCHES:
        owner, attr, orig, had = _PATCHES.pop()
        if had:
            setattr(owner, attr, orig)
        else:
            try:
                delattr(owner, attr)
            except AttributeError:
                setattr(owner, attr, orig)


def wrap_function(owners, attr, post, ctx, counter):
    """Wrap function `attr` found on every owner in `owners` (modules holding a reference to
    the same function).  post(args, kwargs, result) -> None | reason string."""
    first = getattr(owners[0], attr)

    @functools.wraps(first)
    def wrapper(*a, **kw):
        res = first(*a, **kw)
        ctx.count(counter)
        try:
            post(a, kw, res)
        except Exception as e:  # an oracle bug must not look like a library failure
            ctx.count("oracle_errors")
            ctx.notes.setdefault("oracle_error_examples", []).append(repr(e)[:300])
        return res

    for o in owners:
        if getattr(o, attr, None) is first:
            patch(o, attr, wrapper)
    return wrapper


def wrap_method(cls, name, before=None, after=None, ctx=None, counter=None):
    """Wrap method `name` of `cls` (looked up through the MRO, installed on cls itself).
    before(self, args, kwargs) -> token;  after(self, args, kwargs, token, result, exc)."""
    orig = getattr(cls, name)

    @functools.wraps(orig)
    def wrapper(self, *a, **kw):
        token = before(self, a, kw) if before else None
        try:
            res = orig(self, *a, **kw)
        except BaseException as e:
            if counter:
                ctx.count(counter)
            if after:
                after(self, a, kw, token, None, e)
            raise
        if counter:
            ctx.count(counter)
        if after:
            after(self, a, kw, token, res, None)
        return res

    patch(cls, name, wrapper)
    return orig
