"""File-system audit monitor: records Python-level mutating file-system events while armed.

sys.addaudithook hooks cannot be removed, so one hook is installed per process and
consults an `armed` flag."""

from __future__ import annotations

import os
import sys

_installed = False
_armed = False
_events = []

MUTATING = {"os.mkdir", "os.remove", "os.rmdir", "os.rename", "os.chmod", "os.chown", "os.utime", "os.symlink", "os.link", "os.truncate",
            "shutil.copyfile", "shutil.copytree", "shutil.rmtree", "shutil.move", "shutil.copymode", "shutil.copystat", "os.replace"}


def _hook(event, args):
    if not _armed:
        return
    if event == "open":
        path, mode, flags = (list(args) + [None, None, None])[:3]
        writing = (isinstance(mode, str) and any(c in mode for c in "wax+")) or \
                  (isinstance(flags, int) and flags & (os.O_WRONLY | os.O_RDWR | os.O_CREAT | os.O_TRUNC | os.O_APPEND))
        if writing and isinstance(path, (str, bytes, os.PathLike)):
            _events.append(("open-for-write", _s(path)))
    elif event in MUTATING:
        paths = [_s(a) for a in args if isinstance(a, (str, bytes, os.PathLike))]
        if event in ("shutil.copyfile", "shutil.copytree", "shutil.copymode", "shutil.copystat") and len(paths) >= 2:
            paths = paths[1:]  # the first argument is only read
        _events.append((event, *paths))


def _s(p):
    p = os.fspath(p)
    if isinstance(p, bytes):
        p = p.decode("utf-8", "surrogateescape")
    return p


def install():
    global _installed
    if not _installed:
        sys.addaudithook(_hook)
        _installed = True


class armed:
    """Context manager: with armed() as events: ..."""

    def __enter__(self):
        global _armed
        install()
        _events.clear()
        _armed = True
        return _events

    def __exit__(self, *exc):
        global _armed
        _armed = False
        return False


def under(events, root):
    root = os.path.realpath(root)
    out = []
    for e in events:
        for p in e[1:]:
            rp = os.path.realpath(p) if os.path.isabs(p) else os.path.realpath(os.path.join(os.getcwd(), p))
            if rp == root or rp.startswith(root + os.sep):
                out.append(e)
                break
    return out
