"""Escape contract on the live html_escape (every call from any path)."""

from __future__ import annotations

from ..loader import ht, core, util
from ..ref import charref
from . import contracts


def install(ctx, counter="contract.html_escape"):
    def post(a, kw, res):
        text = a[0] if a else kw.get("text")
        attr = a[1] if len(a) > 1 else kw.get("attr", False)
        if not isinstance(text, str) or not isinstance(res, str):
            ctx.violation("escape-contract:type", "html_escape returned a non-string", [repr(text)[:200], repr(res)[:200]])
            return
        eset = charref.ATTR_SET if attr else charref.TEXT_SET
        ctx.count(counter + (".attr" if attr else ".text"))
        why = charref.check_escaped(res, text, eset)
        if why:
            ctx.violation(
                "escape-contract:" + ("attr" if attr else "text"),
                "html_escape(%r, attr=%r) -> %r: %s" % (text[:80], bool(attr), res[:120], why),
                {"text": text[:500], "attr": bool(attr), "result": res[:800], "why": why},
            )

    owners = [util, core, ht]
    w = contracts.wrap_function(owners, "html_escape", post, ctx, counter)
    # backwards-compat alias
    if getattr(util, "_html_escape", None) is not None:
        contracts.patch(util, "_html_escape", w)
    return w
