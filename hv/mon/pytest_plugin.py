"""pytest plugin: run the repository's own tests with invariant-style monitors installed.

Enabled with `-p hv.mon.pytest_plugin` and PYTHONPATH=/verif.  HV_PLUGIN_MONITORS selects
monitors (comma separated: escape, frame, invariant); results are written as JSON to
HV_PLUGIN_OUT at session end."""

from __future__ import annotations

import json
import os

_ctx = None


def pytest_configure(config):
    global _ctx
    from hv import core
    from hv.mon import escape

    _ctx = core.Ctx("PLUGIN", "thorough", 0)
    mons = os.environ.get("HV_PLUGIN_MONITORS", "escape,frame,invariant").split(",")
    if "escape" in mons:
        escape.install(_ctx)
    if "frame" in mons:
        from hv.checks import c01

        c01.frame_contract(_ctx)
    if "purity" in mons:
        from hv.mon import purity

        purity.install_purity_wrappers(_ctx)
    if "invariant" in mons:
        from hv.checks import c14

        c14.install_invariant(_ctx)


def pytest_sessionfinish(session, exitstatus):
    out = os.environ.get("HV_PLUGIN_OUT")
    if out and _ctx is not None:
        p = _ctx.to_partial()
        p["pytest_exit"] = int(exitstatus)
        with open(out, "w") as f:
            json.dump(p, f)
