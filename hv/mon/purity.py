"""Structural fingerprints of object graphs (for purity / repeatability / equality oracles).

fp(x) walks everything reachable from x through __dict__, UserList/UserString .data, dicts
(in order), lists/tuples and records (type name, scalar) at the leaves.  It is structural,
not identity based.  Harness doubles contribute their payload only (call counters are
excluded).  ids(x) collects id() of every Tag, TagList, TagAttrDict, MetadataNode reachable.
"""

from __future__ import annotations

from ..loader import ht, core, jsx_mod
from .. import gen

_SKIP_DOUBLE_FIELDS = {"calls", "_stored", "_tf", "tagify", "_repr_html_"}


def fp(x, _depth=0, _seen=None):
    if _depth > 400:
        return ("<deep>",)
    if x is None or isinstance(x, (bool, int, str)):
        return (type(x).__name__, x)
    if isinstance(x, float):
        return ("float", repr(x))
    if _seen is None:
        _seen = set()
    if id(x) in _seen and not isinstance(x, (str, bytes)):
        # cycles (none are expected) - keep it finite
        return ("<cycle>", type(x).__name__)
    _seen = _seen | {id(x)}
    if isinstance(x, ht.HTML):
        return ("HTML", x.data)
    if isinstance(x, core.TagList):
        return ("TagList", tuple(fp(c, _depth + 1, _seen) for c in x.data)) + _extra(x, ("data",), _depth, _seen)
    if isinstance(x, dict):
        return (type(x).__name__, tuple((fp(k, _depth + 1, _seen), fp(v, _depth + 1, _seen)) for k, v in x.items()))
    if isinstance(x, (list, tuple)):
        return (type(x).__name__, tuple(fp(c, _depth + 1, _seen) for c in x))
    if isinstance(x, (set, frozenset)):
        return (type(x).__name__, tuple(sorted((fp(c, _depth + 1, _seen) for c in x), key=repr)))
    if isinstance(x, gen.HARNESS_DOUBLES):
        d = {k: v for k, v in vars(x).items() if k not in _SKIP_DOUBLE_FIELDS}
        return (type(x).__name__, fp(d, _depth + 1, _seen))
    if hasattr(x, "__dict__") and not isinstance(x, type) and not callable(x):
        return (type(x).__name__, tuple((k, fp(v, _depth + 1, _seen)) for k, v in vars(x).items()))
    if hasattr(x, "__dict__") and callable(x) and not isinstance(x, type):
        # bound methods / functions stored in instance fields (e.g. a saved displayhook): identity only matters
        return ("callable", getattr(x, "__qualname__", type(x).__name__))
    return (type(x).__name__, repr(x))


def _extra(x, skip, depth, seen):
    d = {k: v for k, v in getattr(x, "__dict__", {}).items() if k not in skip}
    if not d:
        return ()
    return (tuple((k, fp(v, depth + 1, seen)) for k, v in d.items()),)


_ID_TYPES = None


def ids(x, out=None, _seen=None):
    """id() of every Tag, TagList, TagAttrDict, MetadataNode (incl. dependencies), JSXTag reachable from x."""
    global _ID_TYPES
    if _ID_TYPES is None:
        _ID_TYPES = (ht.Tag, core.TagList, core.TagAttrDict, ht.MetadataNode, jsx_mod.JSXTag, jsx_mod.JSXTagAttrDict)
    if out is None:
        out = {}
        _seen = set()
    if id(x) in _seen:
        return out
    _seen.add(id(x))
    if isinstance(x, _ID_TYPES):
        out[id(x)] = type(x).__name__
    if isinstance(x, (str, bytes, int, float, bool)) or x is None or isinstance(x, ht.HTML):
        return out
    if isinstance(x, core.TagList):
        for c in x.data:
            ids(c, out, _seen)
        return out
    if isinstance(x, dict):
        for v in x.values():
            ids(v, out, _seen)
        return out
    if isinstance(x, (list, tuple, set, frozenset)):
        for c in x:
            ids(c, out, _seen)
        return out
    if hasattr(x, "__dict__") and not isinstance(x, type) and not callable(x):
        for v in vars(x).values():
            ids(v, out, _seen)
    return out


# ------------------------------------------------------------------ wrapper-based purity monitor
READ_ONLY = {
    "Tag": ["tagify", "render", "__str__", "__repr__", "_repr_html_", "get_html_string", "get_dependencies", "__copy__", "save_html"],
    "TagList": ["tagify", "render", "__str__", "__repr__", "_repr_html_", "get_html_string", "get_dependencies", "save_html"],
    "HTMLDocument": ["render", "save_html"],
    "HTMLDependency": ["as_html_tags", "as_dict", "source_path_map", "serialize_to_script_json", "copy_to", "__str__", "__repr__"],
    "HTMLTextDocument": ["render"],
}


def install_purity_wrappers(ctx):
    """Fingerprint receiver and arguments around the OUTERMOST monitored read-only call (fires on every call any
    workload makes, including the repository's own tests)."""
    from . import contracts

    depth = [0]

    def before(self, a, kw):
        depth[0] += 1
        if depth[0] == 1:
            return (fp(self), fp(a), fp(kw))
        return None

    def make_after(cls, name):
        def after(self, a, kw, token, res, exc):
            depth[0] -= 1
            if token is None:
                return
            ctx.count("monitor.purity_wrapper")
            now = (fp(self), fp(a), fp(kw))
            if now != token:
                ctx.violation("read-only-op-mutates:" + name, "%s.%s changed its receiver or arguments" % (cls, name),
                              {"class": cls, "method": name, "receiver": repr(self)[:300]})
        return after

    for cls, names in READ_ONLY.items():
        c = getattr(ht, cls)
        for n in names:
            contracts.wrap_method(c, n, before=before, after=make_after(cls, n))
