"""Canary objects: a fixed set of constructions made at process start whose fingerprints and renderings are
re-checked later in the same process.  Anything that changes them (module-level caches keyed too coarsely, shared
mutable defaults, state left behind by failed operations, aliasing) is history dependence."""

from __future__ import annotations

from ..loader import ht, jsx_mod
from .purity import fp


class Canary:
    def __init__(self):
        dep = ht.HTMLDependency("canary-dep", "1.10", source={"href": "https://cdn.example/c"}, script=[{"src": "c.js", "defer": "", "type": "module", "integrity": "x"}],
                                stylesheet={"href": "c.css"}, meta={"name": "m", "content": "c"}, head=ht.TagList(ht.tags.title("canary"), ht.HTML("<link rel=\"x\">")))
        older = ht.HTMLDependency("canary-dep", "1.9")
        self.objs = {
            "tree": ht.div({"class": "a", "data-f": 1.0, "data-b": True, "data-z": 0.0, "hidden": False}, "t<&>", ht.span("i", ht.tags.b("b")), ht.p("p\nq"),
                           ht.HTML("<i>h</i>\n"), dep, older, ht.tags.script("a && b", "c"), ht.br(), 0, 1.0, True, class_=ht.HTML("h&amp;")),
            "list": ht.TagList("x", ht.div(), [ht.span("y"), None, 5], ht.head_content(ht.tags.title("hc"))),
            "doc": ht.HTMLDocument(ht.tags.html(ht.tags.head(), ht.tags.body(ht.div("d", dep, ht.head_content(ht.tags.meta(name="k"))))), lang="en"),
            "dep": dep,
            "jsx": jsx_mod.jsx_tag_create("Canary")(ht.span("c"), "s", a=1, b=1.0, c=True, d=[1, "x"], class_="k"),
            "inline": ht.span("a", ht.tags.em("b"), "c"),
        }
        self.snap = self._observe()
        self.fps = {k: fp(v) for k, v in self.objs.items()}

    def _observe(self):
        o = self.objs
        out = {}
        out["tree.default"] = o["tree"].get_html_string()
        out["tree.crlf2"] = o["tree"].get_html_string(2, "\r\n")
        out["tree.eol-empty"] = o["tree"].get_html_string(1, "")
        out["tree.str"] = str(o["tree"])
        out["tree.deps"] = [(d.name, str(d.version)) for d in o["tree"].get_dependencies()]
        out["list.default"] = o["list"].get_html_string(1)
        out["list.noaddws"] = ht.TagList("q", o["inline"]).get_html_string(3, "\n", add_ws=False)
        out["list.render"] = o["list"].render()["html"]
        out["doc.render"] = o["doc"].render()["html"]
        out["doc.noversion"] = o["doc"].render(lib_prefix=None, include_version=False)["html"]
        out["dep.dict"] = repr(o["dep"].as_dict(lib_prefix="p", include_version=False))
        out["dep.json"] = o["dep"].serialize_to_script_json(indent=2).get_html_string()
        out["jsx"] = str(o["jsx"])
        out["inline"] = o["inline"].get_html_string(4, "\t")
        out["attrs"] = repr(list(ht.Tag("input", checked=True, value=1.0, tabindex=0, max=1, disabled=False, size=0.0).attrs.items()))
        out["escape"] = ht.html_escape("a\"'\r\n<&>") + "|" + ht.html_escape("a\"'\r\n<&>", attr=True)
        # values that need escaping in ONE context only (quotes and line breaks matter in attributes, not in text)
        out["escape.quotes-only"] = ht.html_escape("say \"hi\"\r\n it's", attr=True) + "|" + ht.html_escape("say \"hi\"\r\n it's") + "|" + ht.span("q\"'", title="t\"'\n", data_x="plain").get_html_string()
        out["escape.text-only"] = ht.html_escape("a<b") + "|" + ht.html_escape("a&b", attr=True) + "|" + ht.html_escape("nothing to do") + "|" + ht.html_escape("nothing to do", attr=True)
        out["css"] = repr(ht.css(font_size="1px", zIndex=0, x=None))
        out["headc"] = ht.head_content(ht.tags.title("canary-hc")).name
        out["textdoc"] = ht.HTMLTextDocument("<head>@@</head>" + out["dep.json"], deps_replace_pattern="@@").render()["html"]
        return out

    def check(self):
        """Returns a list of human-readable differences (empty when nothing changed)."""
        diffs = []
        try:
            now = self._observe()
        except Exception as e:
            return ["observing the canaries raised %r" % (e,)]
        for k, v in self.snap.items():
            if now.get(k) != v:
                diffs.append("%s changed" % k)
        for k, v in self.objs.items():
            if fp(v) != self.fps[k]:
                diffs.append("object graph of canary '%s' changed" % k)
        return diffs
