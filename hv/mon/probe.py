"""sys.monitoring probes (Python 3.12): witnesses of what was observed, never verdicts.

line_probe(func, marker, extract, sink) fires on the source line of `func` that contains
`marker` and calls sink(extract(frame_locals)).  If the marker is not found (the code was
refactored) the probe attaches nothing and reports attached=False."""

from __future__ import annotations

import inspect
import sys

TOOL = 4  # a free tool id (0-5); 4 is not one of the reserved debugger/coverage/profiler/optimizer ids
_active = []


def line_probe(func, marker, extract, sink, name="hv"):
    mon = getattr(sys, "monitoring", None)
    if mon is None:
        return False
    code = func.__code__
    try:
        src, first = inspect.getsourcelines(func)
    except (OSError, TypeError):
        return False
    target = None
    for off, ln in enumerate(src):
        if marker in ln:
            target = first + off
            break
    if target is None:
        return False
    if not _active:
        try:
            mon.use_tool_id(TOOL, name)
        except ValueError:
            return False

    def on_line(co, lineno):
        if co is code and lineno == target:
            try:
                sink(extract(sys._getframe(2).f_locals))
            except Exception:
                pass
            return None
        return mon.DISABLE if co is not code else None

    if not _active:
        mon.register_callback(TOOL, mon.events.LINE, _dispatch)
    _active.append((code, on_line))
    mon.set_local_events(TOOL, code, mon.events.LINE)
    return True


def _dispatch(co, lineno):
    for code, cb in _active:
        if co is code:
            return cb(co, lineno)
    return sys.monitoring.DISABLE


def detach_all():
    mon = getattr(sys, "monitoring", None)
    if mon is None or not _active:
        return
    for code, _ in _active:
        try:
            mon.set_local_events(TOOL, code, 0)
        except Exception:
            pass
    mon.register_callback(TOOL, mon.events.LINE, None)
    mon.free_tool_id(TOOL)
    _active.clear()
