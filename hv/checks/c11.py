"""C11 - HTMLDocument builds one head/body and hoists every dependency into head."""

from __future__ import annotations

import copy
import re

from ..loader import ht
from ..ref import document as refdoc, tokenizer
from ..ref import deps as refdeps
from .. import gen, layoutgen as lg

ID = "C11"
LEVEL = "exploration"
RULE = ("documents whose content is a fragment, a list, a lone <body>, or a lone <html> with/without <head>/<body> and head at any "
        "child index, given at construction or appended later; dependencies (source-less, directory and URL sources; scripts, "
        "stylesheets, meta, head markup; duplicated and multi-version) in the body, directly under <html> and inside the user's "
        "<head>; equal and different head_content() items; html attribute arguments colliding with existing attributes; lib_prefix "
        "in {lib, None, '', a/b}; include_version on/off. Compared with an independently assembled document (exact string and "
        "tokenizer-based structure). non-trivial = >=2 dependencies and a non-fragment root or user head content; distinct by digest")
ASSUMPTIONS = ["the independently assembled tree is rendered with the library's own tag renderer (judged by C01-C07)",
               "contents hold no tagifiable doubles (C09 covers HTMLDocument with expansions)"]
SHARDS = {"quick": 1, "thorough": 16}

DOCTYPE = "<!DOCTYPE html>\n"


def rand_dep(rng, ids, nested_dep=False):
    n = ids.next("x")[:-1]
    d = {"k": "dep", "name": rng.choice(["da", "db", "dc", "dd"] if rng.random() < 0.9 else ["R&D", "a<b", "x>y", "q&amp;r"]),
         "version": rng.choice(["1.0", "1.9", "1.10", "2.0.1"]), "_mark": n}
    if rng.random() < 0.08:
        # versions with a pre-release / post-release / development / local part, each under a name of its own (their order
        # relative to other versions is not at stake here): listed and written exactly as str(version)
        d["version"] = rng.choice(["3.0rc1", "1.2.post3", "1.0.dev2", "0.9+local.7", "2.0a1", "1!2.0", "4.1b2.post1"])
        d["name"] = "pre" + "".join(ch for ch in d["version"] if ch.isalnum())
    if rng.random() < 0.15:
        d["sub"] = True
    if rng.random() < 0.15:
        d["version_object"] = True
    s = rng.random()
    if s < 0.4:
        d["source"] = {"subdir": rng.choice(["libdir", "some/dir"])}
    elif s < 0.7:
        d["source"] = {"href": rng.choice(["https://cdn.example/p", "https://cdn.example/p/"])}
    if "source" in d or rng.random() < 0.3:
        if rng.random() < 0.8:
            d["script"] = [{"src": "s%s_%d.js" % (n, k)} for k in range(rng.randint(1, 2))]
            if rng.random() < 0.3:
                d["script"][0]["defer"] = ""
            if rng.random() < 0.3:
                # several optional attributes: their order in the emitted tag is the order given
                extra = rng.sample([("async", ""), ("type", "module"), ("integrity", "sha-x"), ("crossorigin", "anonymous"), ("referrerpolicy", "origin"),
                                    ("fetchpriority", "low")], rng.randint(2, 4))
                item = d["script"][-1] if isinstance(d["script"], list) else d["script"]
                pos = rng.random() < 0.5
                new = dict(extra[:1]) if pos else {}
                new.update(item)
                new.update(dict(extra[1:] if pos else extra))
                if isinstance(d["script"], list):
                    d["script"][-1] = new
                else:
                    d["script"] = new
            if rng.random() < 0.2:
                d["script"] = d["script"][0]
        if rng.random() < 0.5:
            d["stylesheet"] = [{"href": "c%s.css" % n}]
            if rng.random() < 0.3:
                d["stylesheet"][0]["media"] = "print"
    if rng.random() < 0.4:
        d["meta"] = {"name": "m%s" % n, "content": "v"}
    shared = rng.random() < 0.2  # several dependencies may legitimately carry identical pieces; each still emits its own
    if shared:
        d["meta"] = [{"name": "viewport", "content": "width=device-width"}]
        if "source" not in d or "href" in d.get("source", {}):
            d["source"] = {"href": "https://cdn.example/shared"}
            d["script"] = [{"src": "shared.js"}]
    h = rng.random()
    if h < 0.25:
        d["head"] = [gen.TAG("title", {"k": "text", "s": "T%s" % n})]
    elif h < 0.4:
        d["head"] = "<meta name=\"raw%s\">" % n
    if shared and rng.random() < 0.5:
        d["head"] = [gen.TAG("title", {"k": "text", "s": "SharedTitle"})]
    if shared:
        d["_mark"] = n + "S"   # (needles of shared pieces are not unique: structural needle rules skip this dependency)
        d["_shared"] = True
    if nested_dep:
        inner = rand_dep(rng, ids)
        inner["name"] = "inner"
        d["head"] = [gen.TAG("title", {"k": "text", "s": "T%s" % n}), inner]
    return d


def strip_marks(r):
    """Remove the private _mark keys before building (HTMLDependency does not take them)."""
    if isinstance(r, dict):
        return {k: strip_marks(v) for k, v in r.items() if k not in ("_mark", "_shared")}
    if isinstance(r, list):
        return [strip_marks(x) for x in r]
    return r


def rand_body_node(rng, ids, depth, dep_p=0.25):
    r = rng.random()
    if r < dep_p:
        return rand_dep(rng, ids)
    if r < dep_p + 0.08:
        if rng.random() < 0.5:
            # snippets that differ only in surrounding / inner whitespace or letter case are different content
            base_ = "<style>s%d{}</style>" % rng.randint(1, 2)
            return {"k": "headc", "c": [{"k": "html", "s": rng.choice([base_, base_ + " ", " " + base_, "\n" + base_ + "\n", base_.upper(), base_.replace("{", " {"), base_ + "\n"])}]}
        return {"k": "headc", "c": [gen.TAG("title", {"k": "text", "s": "hc%d" % rng.randint(1, 3)})]}
    if r < dep_p + 0.13:
        # a widget attaches its dependency (or head content) to the void element it returns: collected like anywhere else
        carried = [rand_dep(rng, ids)] + ([{"k": "headc", "c": [gen.TAG("title", {"k": "text", "s": "hc%d" % rng.randint(1, 3)})]}] if rng.random() < 0.4 else [])
        return gen.TAG(rng.choice(["input", "img", "br", "hr", "wbr", "embed"]), *carried, ws=False, via_fn=False, attrs=[["id", {"t": "str", "s": ids.next("v")}]])
    if depth <= 0 or r < 0.55:
        return lg.leaf(rng.choice(["text", "text", "html", "obj", "meta"]), ids)
    block = rng.random() < 0.6
    return gen.TAG(rng.choice(lg.BLOCKS if block else lg.INLINES), *[rand_body_node(rng, ids, depth - 1, dep_p) for _ in range(rng.randint(0, 3))],
                   ws=block, via_fn=False, attrs=lg._attrs(rng, ids))


def rand_case(rng, nested=False):
    ids = lg.Ids()
    shape = rng.choice(["fragment", "fragment", "list", "body", "html_full", "html_nohead", "html_head_late", "html_nobody", "html_deps_under", "two_roots",
                        "body_plus_meta_siblings", "html_plus_meta_siblings", "head_and_body", "body", "lone_named_nontag"])
    kids = [rand_body_node(rng, ids, rng.choice([0, 1, 2, 3])) for _ in range(rng.randint(0, 4))]
    if rng.random() < 0.02:
        # a page that carries a great many dependencies (more than any fast path would expect), some names in several versions
        for j in range(rng.choice([55, 90, 140])):
            d_ = rand_dep(rng, ids)
            d_["name"] = "many%02d" % (j % 47)
            if not d_["version"].replace(".", "").isdigit():
                d_["version"] = "1.0"    # (a renamed dependency shares its name with others: plain versions only, see rand_dep)
            kids.insert(rng.randint(0, len(kids)), d_ if j % 3 else gen.TAG("div", d_, via_fn=False))
    if nested:
        kids.insert(rng.randint(0, len(kids)), rand_dep(rng, ids, nested_dep=True))
    user_head = [gen.TAG("title", {"k": "text", "s": "UT"}), gen.TAG("meta", attrs=[["name", {"t": "str", "s": "um"}]])][: rng.randint(0, 2)]
    head_extra = {"attrs": [["data-head", {"t": "str", "s": "mine"}], ["class", {"t": "str", "s": "h"}]][: rng.randint(1, 2)]} if rng.random() < 0.25 else {}
    if rng.random() < 0.15:
        head_extra["ws"] = False
    if rng.random() < 0.25:
        # the user's own charset declaration (any value, any position) does not replace the document's
        user_head.insert(rng.randint(0, len(user_head)), gen.TAG("meta", attrs=[["charset", {"t": "str", "s": rng.choice(["latin-1", "utf-8", "UTF-8"])}]]))
    if rng.random() < 0.3:
        user_head.append(rand_dep(rng, ids))
    hattrs = [["lang", {"t": "str", "s": "fr"}], ["class", {"t": "str", "s": "k1"}]][: rng.randint(0, 2)]
    if shape == "fragment":
        content = kids
    elif shape == "list":
        content = [{"k": "list", "t": rng.choice(["list", "taglist", "tuple"]), "c": kids}]
    elif shape == "body":
        # (the user's <body> is used as the user made it: its attributes, and its whitespace flag, are its own)
        content = [gen.TAG("body", *kids, via_fn=False, ws=rng.random() < 0.7, attrs=[["class", {"t": "str", "s": "bd"}], ["id", {"t": "str", "s": "main"}]][: rng.randint(0, 2)])]
    elif shape == "lone_named_nontag":
        # the only content is something that is not a tag but happens to be NAMED html / body: ordinary content
        nm = rng.choice(["html", "body"])
        if rng.random() < 0.6:
            d_ = rand_dep(rng, ids)
            d_["name"] = nm
            if not d_["version"].replace(".", "").isdigit():
                d_["version"] = "1.2"
            content = [d_]
        else:
            content = [{"k": "obj", "s": "<p>" + ids.next("o") + "</p>", "taglike": nm}]
    elif shape == "html_full":
        content = [gen.TAG("html", gen.TAG("head", *user_head, via_fn=False, **head_extra), gen.TAG("body", *kids, via_fn=False), via_fn=False, attrs=hattrs)]
    elif shape == "html_nohead":
        content = [gen.TAG("html", gen.TAG("body", *kids, via_fn=False), via_fn=False, attrs=hattrs)]
    elif shape == "html_head_late":
        content = [gen.TAG("html", *kids[:1], gen.TAG("body", *kids[1:], via_fn=False), gen.TAG("head", *user_head, via_fn=False, **head_extra), via_fn=False, attrs=hattrs)]
    elif shape == "html_nobody":
        content = [gen.TAG("html", gen.TAG("head", *user_head, via_fn=False, **head_extra), *kids, via_fn=False, attrs=hattrs)]
    elif shape == "html_deps_under":
        content = [gen.TAG("html", rand_dep(rng, ids), gen.TAG("head", *user_head, via_fn=False, **head_extra), rand_dep(rng, ids), gen.TAG("body", *kids, via_fn=False), via_fn=False)]
    elif shape == "head_and_body":
        # a <head> next to a <body> is ordinary content (only a LONE <html> or <body> is taken as the document's own)
        content = [gen.TAG("head", *user_head, via_fn=False, **head_extra), gen.TAG("body", *kids, via_fn=False)]
        if rng.random() < 0.4:
            content = content[::-1]
    elif shape == "body_plus_meta_siblings":
        sib = [rand_dep(rng, ids) if rng.random() < 0.7 else {"k": "headc", "c": [gen.TAG("title", {"k": "text", "s": "hc%d" % rng.randint(1, 3)})]}
               for _ in range(rng.randint(1, 3))]
        k = rng.randint(0, len(sib))
        content = sib[:k] + [gen.TAG("body", *kids, via_fn=False)] + sib[k:]
    elif shape == "html_plus_meta_siblings":
        sib = [rand_dep(rng, ids) if rng.random() < 0.7 else {"k": "meta"} for _ in range(rng.randint(1, 2))]
        k = rng.randint(0, len(sib))
        content = sib[:k] + [gen.TAG("html", gen.TAG("head", *user_head, via_fn=False, **head_extra), gen.TAG("body", *kids, via_fn=False), via_fn=False, attrs=hattrs)] + sib[k:]
    else:
        content = [gen.TAG("html", gen.TAG("body", via_fn=False), via_fn=False), gen.TAG("body", *kids, via_fn=False)]
    kw = rng.choice([[], [["lang", {"t": "str", "s": "en"}]], [["lang", {"t": "str", "s": "en"}], ["data_x", {"t": "true"}]],
                     [["class_", {"t": "str", "s": "doc"}], ["gone", {"t": "none"}]],
                     [["class_", {"t": "str", "s": "a"}], ["class", {"t": "str", "s": "b"}]],
                     [["title", {"t": "str", "s": "tip"}]],
                     # values that are falsy but mean "set": an empty value, zero
                     [["hidden", {"t": "str", "s": ""}]], [["data_n", {"t": "num", "v": 0}], ["data_f", {"t": "num", "v": 0.0}]], [["hidden", {"t": "true"}], ["data_e", {"t": "str", "s": ""}]], [["id", {"t": "str", "s": "root"}], ["title", {"t": "str", "s": "T & t"}], ["hidden", {"t": "true"}]],
                     [["style", {"t": "str", "s": "margin:0;"}], ["dir", {"t": "str", "s": "rtl"}], ["name", {"t": "str", "s": "n"}], ["content", {"t": "str", "s": "c"}]], [["data_x", {"t": "str", "s": "1"}], ["data-x", {"t": "str", "s": "2"}], ["lang", {"t": "str", "s": "de"}]]])
    n_late = rng.choice([0, 0, 1, 2, 3]) if shape in ("fragment", "list") else 0
    if shape == "head_and_body" and rng.random() < 0.5:
        late_pair = content[1:]
        content = content[:1]
    else:
        late_pair = []
    if shape == "body_plus_meta_siblings" and rng.random() < 0.5:
        # the siblings arrive later through append()
        body_i = next(i for i, c in enumerate(content) if c["k"] == "tag")
        late_sibs = content[body_i + 1:]
        content = content[: body_i + 1]
    else:
        late_sibs = []
    grow = None
    if rng.random() < 0.2:
        cand = [i for i, c in enumerate(content) if c["k"] == "tag" and c["name"] not in ("script", "style", "head", "html", "title") and c["name"] not in gen.VOID]
        if cand:
            grow = {"at": rng.choice(cand), "dep": rand_dep(rng, ids), "render_first": rng.random() < 0.5}
    return {"shape": shape, "content": content, "json_mode": rng.random() < 0.1, "prior_document": rng.choice([0, 0, 0, 1, 2]), "grow": grow, "refused_append": rng.random() < 0.2, "late": late_pair + late_sibs + [rand_body_node(rng, ids, 1) for _ in range(n_late)], "kw": kw,
            "lib_prefix": rng.choice(["lib", "lib", None, "", "a/b", "/", "//", "lib/", "/static", "//cdn.example/x", ".", "../up", "with space", "https://cdn.example.com/assets/lib", "http://h/", "a//b", "file:///srv/lib"]), "include_version": rng.random() < 0.7, "late_together": rng.random() < 0.5}


def has_nested_dep(case):
    for c in case["content"] + case["late"]:
        for x in gen.walk(c):
            if x["k"] == "dep" and isinstance(x.get("head"), list) and any(y["k"] in ("dep", "headc") for h in x["head"] for y in gen.walk(h)):
                return True
    return False


def dep_value(d):
    return (d.name, str(d.version))


def check_case(ctx, case):
    wit = {"case": case}
    content = strip_marks(case["content"])
    late = strip_marks(case["late"])
    kw = {k: gen.build_attr_value(v) for k, v in case["kw"]}
    nodes = [gen.build(c) for c in content]
    if case.get("prior_document"):
        # the same content objects were rendered by another document (with other html attributes) before
        prior = ht.HTMLDocument(*nodes, lang="zz", data_prior="1", class_="prior")
        prior.render()
        if case["prior_document"] == 2:
            prior.render(lib_prefix="other", include_version=False)
        ctx.count("prior_documents")
    doc = ht.HTMLDocument(*nodes, **kw)
    grow = case.get("grow")
    if grow is not None and grow["at"] < len(nodes) and isinstance(nodes[grow["at"]], ht.Tag):
        # the user keeps building on an element AFTER it was handed to the document: the document shows the element as it is when
        # it is rendered (markup and dependencies alike)
        import copy as _copy

        if grow.get("render_first"):
            doc.render()
        nodes[grow["at"]].append("grown after hand-over", gen.build(strip_marks(grow["dep"])))
        case = dict(case, content=_copy.deepcopy(case["content"]))
        target_ = case["content"][grow["at"]]
        target_["c"] = gen.flat_children(target_) + [{"k": "text", "s": "grown after hand-over"}, grow["dep"]]
        content = strip_marks(case["content"])
        ctx.count("documents_whose_content_grew_after_hand_over")
    if late and case.get("render_before_append", True):
        doc.render()  # an earlier rendering must not influence the one after append()
    if case.get("refused_append"):
        # an append that is refused (an invalid child among valid ones) is not an append: nothing of it is in the document
        for bad_args in ((ht.div("refused-1", ht.HTMLDependency("refused-dep", "1.0", script={"src": "refused.js"})), ht.head_content(ht.tags.title("refused head")), 1j),
                         ("refused text", object()), (["refused in a list", {"not": "a child"}],)):
            try:
                doc.append(*bad_args)
            except TypeError:
                pass
        ctx.count("refused_appends")
    if case.get("late_together") and late:
        doc.append(*[gen.build(c) for c in late])
    else:
        for c in late:
            doc.append(gen.build(c))
    if case.get("json_mode"):
        # the global dependency render mode concerns str() of tags; a document hoists its dependencies either way
        import htmltools as _h

        old_mode = _h.html_dependency_render_mode
        _h.html_dependency_render_mode = "json"
        try:
            out = doc.render(lib_prefix=case["lib_prefix"], include_version=case["include_version"])
        finally:
            _h.html_dependency_render_mode = old_mode
        ctx.count("json_mode_documents")
    else:
        out = doc.render(lib_prefix=case["lib_prefix"], include_version=case["include_version"])
    ctx.count("oracle.assembly")
    # head_content() items: same rendered content <=> same name (decided here from the payload recipes, not from the names)
    by_name, by_content = {}, {}
    for c_ in content + late:
        for x_ in gen.walk(c_):
            if x_["k"] == "headc":
                markup = ht.TagList(*[gen.build(p_) for p_ in x_["c"]]).get_html_string()
                nm = gen.build(x_).name
                ctx.count("oracle.head_content_names")
                if by_name.setdefault(nm, markup) != markup or by_content.setdefault(markup, nm) != nm:
                    ctx.violation("head-content-names", "head_content() names are not one-to-one with the rendered content: %r is named %s" % (markup[:60], nm), wit)
                    return False
    nested = has_nested_dep(case)

    def viol(key, what, w):
        ctx.violation("dependency-inside-dependency-head" if nested else key, what, w)

    exp_html, exp_deps = refdoc.assemble(case["content"] + case["late"], case["kw"], case["lib_prefix"], case["include_version"],
                                         headc_name_of=lambda r: gen.build(strip_marks(r)).name)
    want = DOCTYPE + gen.build(strip_marks(exp_html)).get_html_string()
    got = out["html"]
    if not got.startswith(DOCTYPE):
        viol("doctype-missing", "output does not start with the doctype", dict(wit, got=got[:200]))
        return False
    got_deps = [dep_value(d) for d in out["dependencies"]]
    want_deps = [(d["name"], d["version"]) for d in exp_deps]
    if got_deps != want_deps:
        viol("returned-deps-differ", "returned dependencies %r, resolved list %r" % (got_deps, want_deps), wit)
        return False
    if got != want:
        viol(_classify(got, want), "rendered document differs from the independently assembled one", dict(wit, got=got[:2500], want=want[:2500]))
        return False
    # ---- structural rules via the tokenizer
    ctx.count("oracle.structure")
    body = got[len(DOCTYPE):]
    try:
        forest = [n for n in tokenizer.parse(body) if isinstance(n, tokenizer.Node) or n[1].strip()]
    except tokenizer.Forged:
        ctx.count("structure_untokenizable")  # raw head markup given as a string may not be in the writer's grammar
        return True
    if len(forest) != 1 or not isinstance(forest[0], tokenizer.Node) or forest[0].name != "html":
        viol("not-a-single-html-element", "document is not a single <html> element", wit)
        return False
    html = forest[0]
    heads = [c for c in html.children if isinstance(c, tokenizer.Node) and c.name == "head"]
    if len(heads) != 1:
        viol("head-count", "<html> has %d <head> children" % len(heads), wit)
        return False
    head = heads[0]
    hk = [c for c in head.children if isinstance(c, tokenizer.Node)]
    if not hk or hk[0].name != "meta" or hk[0].attrs != [("charset", "utf-8")] or not hk[0].selfclosed:
        viol("charset-meta-not-first", "<head> does not start with <meta charset=\"utf-8\"/>", wit)
        return False
    listing = [c for c in hk if c.name == "script" and ("type", "application/html-dependencies") in c.attrs]
    if (len(listing) != (1 if want_deps else 0)):
        viol("listing-script-count", "%d listing scripts for %d dependencies" % (len(listing), len(want_deps)), wit)
        return False
    if listing:
        txt = "".join(c[1] for c in listing[0].children if not isinstance(c, tokenizer.Node))
        if txt != ";".join("%s[%s]" % d for d in got_deps):
            viol("listing-text", "listing %r does not name the returned dependencies" % txt, wit)
            return False
    # every resolved dependency's marked elements exactly once, inside head, in resolved order
    last = head.open_end
    for d in exp_deps:
        m = d.get("_mark") or (d.get("_orig") or {}).get("_mark")
        orig = _find_mark(case, d)
        if orig is None:
            continue
        for needle in _needles(orig):
            cnt = got.count(needle)
            pos = body.find(needle)
            if cnt != 1 or not (head.open_end <= pos < head.close_start):
                viol("dependency-markup-not-once-in-head", "%r occurs %d times / outside <head>" % (needle, cnt), wit)
                return False
            if pos < last:
                viol("dependency-markup-order", "%r is out of resolved order" % needle, wit)
                return False
        if _needles(orig):
            last = max(body.find(n) for n in _needles(orig))
    # dropped duplicates / lower versions leave no markup
    kept = {id(_find_mark(case, d)) for d in exp_deps}
    for c in case["content"] + case["late"]:
        for x in gen.walk(c):
            if x["k"] == "dep" and id(x) not in kept:
                for needle in _needles(x):
                    if needle in got:
                        viol("dropped-dependency-emitted", "%r of a dependency that lost resolution is in the output" % needle, wit)
                        return False
    return True


def check_saved_then_rendered(ctx, rng, scratch_dir):
    """save_html() with another library directory, then render() with the argument left out: the documented default applies, as
    for a document that was never saved."""
    import os

    src = os.path.join(scratch_dir, "src%d" % ctx.counters["oracle.saved_then_rendered"])
    os.makedirs(src)
    with open(os.path.join(src, "f.js"), "w") as fh:
        fh.write("/* f */")
    mk = lambda: ht.HTMLDocument(ht.div("doc", ht.HTMLDependency("filedep", "1.2", source={"subdir": src}, script={"src": "f.js"}),     # noqa: E731
                                        ht.HTMLDependency("urldep", "2.0", source={"href": "https://cdn.example/u"}, stylesheet={"href": "u.css"})), lang="en")
    doc, fresh = mk(), mk()
    libdir = rng.choice(["assets", "../assets", None, "a/b", "./assets", "assets/", "", "a//b", "a/../b"])
    iv = rng.random() < 0.5
    ctx.count("oracle.saved_then_rendered")
    # the page a tag / a list / a document writes is the document rendered with the library directory - spelled as given - as prefix
    how = rng.choice(["tag", "list", "document"])
    content = ht.div("doc", ht.HTMLDependency("filedep", "1.2", source={"subdir": src}, script={"src": "f.js"}),
                     ht.HTMLDependency("urldep", "2.0", source={"href": "https://cdn.example/u"}, stylesheet={"href": "u.css"}))
    obj = content if how == "tag" else ht.TagList(content, "y") if how == "list" else ht.HTMLDocument(content)
    out_dir = os.path.join(scratch_dir, "entry%d" % ctx.counters["oracle.saved_then_rendered"], "pages")
    os.makedirs(out_dir)
    file_ = os.path.join(out_dir, "index.html")
    ret = obj.save_html(file_, libdir=libdir, include_version=iv)
    with open(file_, encoding="utf-8", newline="") as fh:
        written = fh.read()
    want_page = (obj if how == "document" else ht.HTMLDocument(obj)).render(lib_prefix=libdir, include_version=iv)["html"]
    if written != want_page or ret != file_:
        ctx.violation("saved-page-differs", "%s.save_html(libdir=%r) wrote a page that differs from the document rendered with lib_prefix=%r" % (how, libdir, libdir),
                      {"scenario": "saved page vs rendering", "entry": how, "libdir": libdir, "include_version": iv, "got": written[:700], "want": want_page[:700]})
        return False
    page_dir = os.path.join(scratch_dir, "site%d" % ctx.counters["oracle.saved_then_rendered"], "pages")
    os.makedirs(page_dir)
    doc.save_html(os.path.join(page_dir, "index.html"), libdir=libdir, include_version=iv)
    for label, a, b in (("render()", doc.render(), fresh.render()), ("render(include_version=False)", doc.render(include_version=False), fresh.render(include_version=False)),
                        ("render(lib_prefix=None)", doc.render(lib_prefix=None), fresh.render(lib_prefix=None))):
        if a["html"] != b["html"]:
            ctx.violation("render-remembers-save", "after save_html(libdir=%r) %s differs from the same call on a document that was never saved" % (libdir, label),
                          {"scenario": "saved then rendered", "libdir": libdir, "got": a["html"][:600], "want": b["html"][:600]})
            return False
    return True


class _KeepsItsPage:
    """A component whose tagify() hands out the complete <html> element it keeps."""

    def __init__(self, page):
        self.page = page

    def tagify(self):
        return self.page


def check_kept_html_root(ctx, rng):
    """The document's root comes out of an object's tagify(), which keeps it: every rendering is assembled afresh - one <head>
    starting with one charset line, one listing, each dependency's markup once - however often (and in however many documents)
    the object is rendered."""
    dep = ht.HTMLDependency("kept", "1.0", source={"subdir": "libdir"}, script={"src": "kept.js"})
    head_first = rng.random() < 0.5
    head = ht.tags.head(ht.tags.title("kept page"), ht.HTMLDependency("in-head", "2.0", source={"href": "https://cdn.example/h"}, stylesheet={"href": "h.css"}) if rng.random() < 0.5 else None)
    body = ht.tags.body("b", dep)
    page = ht.tags.html(head, body, lang="fr") if head_first else ht.tags.html(body, head)
    w = _KeepsItsPage(page)
    kw = rng.choice([{}, {"lang": "de"}, {"class_": "k"}])
    docs = [ht.HTMLDocument(w, **kw), ht.HTMLDocument(ht.TagList(w)), ht.HTMLDocument(w, **kw)]
    outs = []
    for d_ in docs:
        outs.append(d_.render()["html"])
        outs.append(d_.render(lib_prefix="other")["html"])
    ctx.count("oracle.kept_html_root")
    for i_, out in enumerate(outs):
        if out.count('<meta charset="utf-8"/>') != 1 or out.count("application/html-dependencies") != 1 or out.count("kept.js") != 1 or out.count("<head>") != 1 or out.count("<title>kept page</title>") != 1:
            ctx.violation("head-count", "rendering #%d of documents whose root is an <html> element kept by a component: charset / listing / dependency markup not exactly once" % (i_ + 1),
                          {"scenario": "kept html root", "output": out[:900]})
            return False
    if outs[0] != outs[4] or outs[1] != outs[5]:
        ctx.violation("head-count", "the same document construction over a kept <html> element renders differently the second time", {"scenario": "kept html root", "first": outs[0][:600], "later": outs[4][:600]})
        return False
    return True


def _find_mark(case, d):
    mark = d.get("_mark")
    if mark is None:
        return None
    for c in case["content"] + case["late"]:
        for x in gen.walk(c):
            if x["k"] == "dep" and x.get("_mark") == mark:
                return x
    return None


def _needles(dep):
    n = dep["_mark"]
    out = []
    if dep.get("_shared"):
        return out
    sc = dep.get("script")
    if sc:
        out.append("s%s_0.js\"" % n)
    if dep.get("stylesheet"):
        out.append("c%s.css\"" % n)
    if dep.get("meta"):
        out.append("name=\"m%s\"" % n)
    h = dep.get("head")
    if isinstance(h, str):
        out.append("raw%s\"" % n)
    elif isinstance(h, list):
        out.append("<title>T%s</title>" % n)
    return out


def _classify(got, want):
    if "".join(got.split()) == "".join(want.split()):
        return "document-whitespace"
    g = re.sub(r"<head>.*</head>", "", got, flags=re.S)
    w = re.sub(r"<head>.*</head>", "", want, flags=re.S)
    return "document-head-differs" if g == w else "document-body-differs"


def check_shared_content(ctx, case):
    """Two documents built from the same TagList (or list): appending to one changes neither the list nor the other."""
    wit = {"case": case, "scenario": "two documents from one content list"}
    content = ht.TagList(*[gen.build(c) for c in strip_marks(case["content"])])
    snapshot = list(content)
    kw = {k: gen.build_attr_value(v) for k, v in case["kw"]}
    d1 = ht.HTMLDocument(content, **kw)
    d2 = ht.HTMLDocument(content, **kw)
    before = d2.render()["html"]
    ctx.count("oracle.shared_content")
    import copy as _c
    snap_doc = _c.copy(d2)
    snap_before = snap_doc.render()["html"]
    d1.append(ht.div("appended-to-first"), ht.HTMLDependency("late-dep", "1.0", script={"src": "l.js"}))
    d2_copy_source = _c.copy(d1)
    d1.append(ht.div("appended-after-the-copy"))
    if "appended-after-the-copy" in d2_copy_source.render()["html"] or snap_doc.render()["html"] != snap_before:
        ctx.violation("document-content-aliased", "append() on a document shows up in a copy.copy() taken before", wit)
        return False
    if len(content) != len(snapshot) or any(a is not b for a, b in zip(content, snapshot)):
        ctx.violation("document-content-aliased", "append() on a document changed the TagList it was built from", wit)
        return False
    if d2.render()["html"] != before:
        ctx.violation("document-content-aliased", "append() on one document changed another document built from the same list", wit)
        return False
    if "appended-to-first" not in d1.render()["html"]:
        ctx.violation("document-body-differs", "appended content missing", wit)
        return False
    return True


def replay(ctx, w):
    if "case" not in w:
        return
    if w.get("scenario"):
        return check_shared_content(ctx, w["case"])
    check_case(ctx, w["case"])


def nontrivial(case):
    n = sum(1 for c in case["content"] + case["late"] for x in gen.walk(c) if x["k"] in ("dep", "headc"))
    return n >= 2 and (case["shape"] not in ("fragment",))


def run(ctx):
    rng = ctx.rng
    ctx.require("oracle.assembly", 500)
    ctx.require("oracle.structure", 300)
    ex = {"shape": "fragment", "content": [gen.TAG("div", {"k": "text", "s": "t"}, {"k": "dep", "name": "da", "version": "1.0", "_mark": "x1",
                                                              "source": {"subdir": "libdir"}, "script": [{"src": "sx1_0.js"}]})],
          "late": [], "kw": [["lang", {"t": "str", "s": "en"}]], "lib_prefix": "lib", "include_version": True}
    ctx.guard(check_case, ctx, ex, witness={"case": ex})
    ctx.sample({"case": ex, "output": ht.HTMLDocument(*[gen.build(c) for c in strip_marks(ex["content"])], lang="en").render()["html"]})
    for _ in range(ctx.budget(2500, 1500000)):
        case = rand_case(rng)
        ctx.guard(check_case, ctx, case, witness={"case": case})
        if rng.random() < 0.1:
            ctx.guard(check_shared_content, ctx, case, witness={"case": case, "scenario": "two documents from one content list"})
        ctx.case(case, nontrivial=nontrivial(case))
        ctx.state("shape_x_prefix", (case["shape"], case["lib_prefix"], case["include_version"]))
    import shutil
    import tempfile

    scratch_dir = tempfile.mkdtemp(prefix="hv-c11-")
    try:
        for _ in range(ctx.budget(12, 1200)):
            ctx.guard(check_saved_then_rendered, ctx, rng, scratch_dir, witness={"scenario": "saved then rendered"})
            ctx.guard(check_kept_html_root, ctx, rng, witness={"scenario": "kept html root"})
    finally:
        shutil.rmtree(scratch_dir, ignore_errors=True)
    # separate input class: a dependency nested inside another dependency's head (known finding F6)
    for _ in range(ctx.budget(60, 3000)):
        case = rand_case(rng, nested=True)
        ctx.guard(check_case, ctx, case, witness={"case": case})
        ctx.case(case, nontrivial=True)
        ctx.count("nested_dependency_cases")
