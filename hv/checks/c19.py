"""C19 - every tag function creates its own element with the documented default (exhaustive)."""

from __future__ import annotations

import ast
import inspect
import os

from ..loader import ht, REPO
from ..mon.purity import fp
from .. import gen
from .c14 import rand_arg
from .c15 import rand_value, RAW_NAMES

ID = "C19"
LEVEL = "exploration"
RULE = ("ALL functions of htmltools.tags (113) and htmltools.svg (66) and the 17 top-level shortcuts: element name, default "
        "whitespace flag vs the project's inline classification (scripts/generate_tags.py parsed with ast, cross-checked against "
        "a frozen copy), explicit _add_ws True/False, rejection of non-boolean _add_ws, and pass-through of random argument lists "
        "(children from the C14 generator, attribute dicts and keywords from the C15 generator) compared with "
        "Tag(name, *args, _add_ws=default, **kwargs) by fingerprint and rendering. A case is (function, argument list); "
        "non-trivial = argument list has >=1 child and >=1 attribute; distinct by digest")
ASSUMPTIONS = ["the project's classification is the _INLINE_TAG_NAMES set in scripts/generate_tags.py (frozen copy used only if the script is missing)"]
SHARDS = {"quick": 1, "thorough": 16}

FROZEN_INLINE = {"a", "abbr", "acronym", "audio", "b", "bdi", "bdo", "big", "br", "button", "canvas", "cite", "code", "data", "datalist",
                 "del", "dfn", "em", "embed", "i", "iframe", "img", "input", "ins", "kbd", "label", "map", "mark", "meter", "noscript",
                 "object", "output", "picture", "pre", "progress", "q", "ruby", "s", "samp", "select", "slot", "small", "span", "strong",
                 "sub", "sup", "svg", "template", "textarea", "time", "u", "tt", "var", "video", "wbr"}
SHORTCUTS = ["a", "br", "code", "div", "em", "h1", "h2", "h3", "h4", "h5", "h6", "hr", "img", "p", "pre", "span", "strong"]


def script_inline_set():
    path = os.path.join(REPO, "scripts", "generate_tags.py")
    try:
        tree = ast.parse(open(path).read())
    except OSError:
        return None
    for node in ast.walk(tree):
        if isinstance(node, ast.Assign) and any(isinstance(t, ast.Name) and t.id == "_INLINE_TAG_NAMES" for t in node.targets):
            try:
                return set(ast.literal_eval(node.value))
            except Exception:
                return None
    return None


def functions(mod):
    out = []
    for n, f in vars(mod).items():
        if n.startswith("_") or not inspect.isfunction(f) or f.__module__ != mod.__name__:
            continue
        out.append((n, f))
    return out


def S_(s):
    return {"t": "str", "s": s}


def _T(s_):
    return {"k": "text", "s": s_}


def _pair(a, b, wrap=None):
    kids = [gen.TAG(a, _T("first"), ws=True), gen.TAG(b, _T("second"), ws=True)]
    if wrap:
        kids = [{"k": "list", "t": wrap, "c": kids}]
    return {"kids": [_T("lead")] + kids, "dicts": [], "kw": []}


# children that are themselves structural elements, in both orders, directly and inside a container: no function re-arranges,
# merges or drops children because of what they are
_PAIRS = [("body", "head"), ("html", "body"), ("tbody", "thead"), ("tfoot", "tbody"), ("tr", "caption"), ("colgroup", "col"), ("li", "li"), ("optgroup", "option"),
          ("dd", "dt"), ("img", "figcaption"), ("track", "source"), ("input", "legend"), ("p", "summary"), ("meta", "title"), ("link", "base"),
          ("script", "style"), ("br", "hr"), ("svg", "g"), ("defs", "title"), ("desc", "metadata"), ("param", "embed")]
STRUCTURE_PROBES = ([_pair(a, b) for a, b in _PAIRS] + [_pair(b, a) for a, b in _PAIRS]
                    + [_pair(a, b, wrap) for (a, b), wrap in zip(_PAIRS[:8], ["list", "tuple", "taglist"] * 3)]
                    + [{"kids": [gen.TAG("head", ws=True), gen.TAG("head", ws=True), gen.TAG("body", ws=True), gen.TAG("body", ws=True)], "dicts": [], "kw": []}])

# attribute values pass through unchanged whatever the attribute's name means for the element: URLs, namespaces, numbers, empty values
_ATTR_NAMES = ["src", "href", "xmlns", "action", "data", "poster", "srcset", "cite", "value", "content", "charset", "lang", "type", "rel", "media", "viewBox", "d", "points",
               "transform", "fill", "alt", "name", "id", "class_", "style", "for_", "width", "height", "placeholder", "pattern", "accept", "method", "target", "download",
               "xlink_href", "xmlns_xlink", "preserveAspectRatio", "role", "tabindex", "hidden", "checked", "selected", "disabled", "open", "async_", "defer", "http_equiv"]
_ATTR_VALUES = [S_("a b.png"), S_("https://e.org/x y?q=1&r=2#f g"), S_("http://www.w3.org/2000/svg"), S_(" UPPER Case "), S_(""), S_("#frag"), S_("0 0 10 10"), S_("javascript:void(0)"),
                S_("x.js"), S_("a,b 2x"), S_("%20%"), S_("utf-8"), {"t": "num", "v": 0}, {"t": "num", "v": 100}, {"t": "true"}, {"t": "false"}, {"t": "none"}, {"t": "html", "s": "a b&amp;c"}]
ATTRIBUTE_PROBES = []
for _i, _n in enumerate(_ATTR_NAMES):
    for _j in range(3):
        _v = _ATTR_VALUES[(_i * 3 + _j * 7) % len(_ATTR_VALUES)]
        _raw = _n.rstrip("_").replace("_", "-") if _j == 1 else _n
        ATTRIBUTE_PROBES.append({"kids": [_T("k")] if _j else [], "dicts": [[[_raw, _v]]] if _j == 1 else [], "kw": [[_n, _v]] if _j != 1 else []})
ATTRIBUTE_PROBES += [{"kids": [], "dicts": [], "kw": [[_n, _ATTR_VALUES[(_i + 1) % 4]] for _i, _n in enumerate(_ATTR_NAMES[k_:k_ + 6])]} for k_ in range(0, len(_ATTR_NAMES), 6)]


# numbers of every kind under names that usually take whole numbers: written as str() writes them, by every function
for _n in ("width", "height", "size", "cols", "rows", "span", "colspan", "tabindex", "value", "min", "max", "step", "x", "y", "r", "cx", "cy", "maxlength", "start"):
    for _v in (640.0, -0.0, 2.5, True, 1e21, 10**18, -7):
        ATTRIBUTE_PROBES.append({"kids": [], "dicts": [], "kw": [[_n, {"t": "num", "v": _v}]]})
    ATTRIBUTE_PROBES.append({"kids": [_T("k")], "dicts": [[[_n, {"t": "num", "v": 300.0}]]], "kw": []})


# multi-line / tab-separated / padded text under names whose values are often written over several lines: passed through untouched
for _n in ("d", "points", "viewBox", "style", "title", "alt", "value", "placeholder", "srcset", "class_", "transform", "content", "data_json", "onclick", "values", "keyTimes"):
    for _v in ("M 0 0\n  L 5 5\n  Z", "a\tb", "  padded  ", "x\r\ny", "one  two   three"):
        ATTRIBUTE_PROBES.append({"kids": [], "dicts": [], "kw": [[_n, S_(_v)]]})


# values that LOOK like they want normalising (locale names, charsets, media types, letter case, separators): passed through as they are
for _n, _vals in (("lang", ("en_US", "pt_BR.UTF-8", "zh_Hant_TW", "EN", "x_", "_")), ("hreflang", ("en_GB",)), ("charset", ("UTF_8", "utf8", "Latin-1")),
                  ("dir", ("RTL", "Auto")), ("type", ("TEXT/CSS", "Module", "text/java_script")), ("rel", ("StyleSheet", "no_opener")), ("method", ("POST", "Get")),
                  ("target", ("_blank", "_self", "blank")), ("id", ("a_b", "A-B", " a ")), ("for_", ("in_put",)), ("name", ("user_name", "x.y")),
                  ("href", ("a_b.html", "HTTP://X.ORG/A_B", "#frag_1")), ("src", ("my_file.js", "./a/../b.js")), ("http_equiv", ("Content_Type",)),
                  ("xml_lang", ("en_US",)), ("xmlns", ("HTTP://www.w3.org/2000/SVG",)), ("viewBox", ("0_0_10_10",)), ("preserveAspectRatio", ("xMidYMid_meet",)),
                  ("crossorigin", ("Anonymous", "use_credentials")), ("loading", ("LAZY",)), ("autocomplete", ("ON", "new_password")), ("translate", ("NO",)),
                  ("contenteditable", ("TRUE",)), ("draggable", ("False",)), ("spellcheck", ("FALSE",)), ("data_locale", ("en_US",)), ("accept_charset", ("UTF_8",))):
    for _v in _vals:
        ATTRIBUTE_PROBES.append({"kids": [_T("k")], "dicts": [], "kw": [[_n, S_(_v)]]})
        ATTRIBUTE_PROBES.append({"kids": [], "dicts": [[[_n.rstrip("_").replace("_", "-"), S_(_v)]]], "kw": []})


# a positional attribute dict stays an attribute dict whatever the other attributes say (type=..., role=..., is=...)
for _ty in ("application/json", "module", "text/css", "application/ld+json", "checkbox", "hidden", "submit", "text/template", "importmap"):
    ATTRIBUTE_PROBES.append({"kids": [_T("x")], "dicts": [[["data-a", S_("1")], ["id", S_("i")]]], "kw": [["type", S_(_ty)]]})
    ATTRIBUTE_PROBES.append({"kids": [], "dicts": [[["data-a", S_("1")]], [["a", S_("b")], ["c", {"t": "num", "v": 1}]]], "kw": [["type", S_(_ty)], ["role", S_("r")]]})


# sizes ordinary calls never reach
# things that are not children: alone, and next to valid arguments - refused by every function exactly as Tag() refuses them
INVALID_PROBES = []
for _t in ("generator", "iterator", "map", "dictkeys", "dictitems", "enumerate", "range", "set", "dict", "bytes", "object", "fraction", "function"):
    INVALID_PROBES.append({"kids": [{"k": "bad", "t": _t}], "dicts": [], "kw": []})
    INVALID_PROBES.append({"kids": [_T("a"), {"k": "bad", "t": _t}], "dicts": [[["id", S_("i")]]], "kw": [["title", S_("t")]]})
    INVALID_PROBES.append({"kids": [{"k": "list", "t": "list", "c": [{"k": "bad", "t": _t}]}], "dicts": [], "kw": []})

# values that are not attribute values, under names that suggest a conversion (a date for datetime=, a path for src=, a list for
# class_=, a dict for style= ...): every function refuses them exactly as Tag() does
_BAD_ATTRS = [("datetime", "date"), ("datetime", "datetime"), ("datetime", "time"), ("src", "path"), ("href", "path"), ("class_", "list"), ("class_", "set"), ("style", "dict"),
              ("data", "bytes"), ("value", "decimal"), ("width", "fraction"), ("id", "uuid"), ("onclick", "callable"), ("data_x", "object"), ("points", "tuple"), ("viewBox", "tuple"),
              ("dur", "timedelta"), ("d", "list"), ("for_", "tag"), ("form", "tag"), ("list", "tag"), ("aria_labelledby", "tag"), ("aria_describedby", "taglist"), ("for_", "taglist"),
              ("headers", "tag"), ("popovertarget", "tag"), ("href", "tag"), ("src", "dep"), ("data_target", "tag"), ("usemap", "tag"), ("for_", "tagfunction"), ("slot", "tag"), ("is_", "tag"), ("transform", "complex"), ("srcset", "list"), ("content", "dict"), ("title", "bytes"), ("for_", "object"), ("aria_hidden", "object")]
for _n, _b in _BAD_ATTRS:
    INVALID_PROBES.append({"kids": [], "dicts": [], "kw": [[_n, {"t": "bad", "v": _b}]]})
    INVALID_PROBES.append({"kids": [_T("k")], "dicts": [[[_n.rstrip("_").replace("_", "-"), {"t": "bad", "v": _b}]]], "kw": [["id", S_("i")]]})

LARGE_PROBES = [
    {"kids": [gen.TAG("i", _T("k%d" % k), ws=False) for k in range(1100)] + [{"k": "list", "t": "taglist", "c": [gen.TAG("b", ws=False), gen.TAG("u", ws=False)]}]
             + [{"k": "list", "t": "list", "c": [gen.TAG("s", ws=False), {"k": "list", "t": "tuple", "c": [gen.TAG("q", ws=False)]}]}], "dicts": [], "kw": []},
    {"kids": [{"k": "list", "t": "taglist", "c": [gen.TAG("b", ws=False)]}] + [gen.TAG("i", ws=False) for k in range(1030)] + [{"k": "list", "t": "taglist", "c": []}], "dicts": [], "kw": [["title", S_("t")]]},
    {"kids": [_T("t%d" % k) for k in range(2100)], "dicts": [], "kw": []},
]
_LARGE_BUILT = {}
_ATTR_ONLY_BUILT = {}
LARGE_PROBE = {"kids": [_T("t%d" % k) if k % 2 else gen.TAG("i", _T("k"), ws=False) for k in range(1600)],
               "dicts": [[["data-d%d" % k, S_("v%d" % k)] for k in range(90)]], "kw": [["data_k%d" % k, S_("w%d" % k)] for k in range(120)]}


def rand_args(rng):
    kids = [rand_arg(rng, rng.choice([0, 1, 2])) if rng.random() < 0.7 else {"k": "text", "s": gen.text_of(rng)} for _ in range(rng.randint(0, 4))]
    dicts = [[[rng.choice(RAW_NAMES), rand_value(rng)] for _ in range(rng.randint(0, 3))] for _ in range(rng.randint(0, 2))]
    kw = [[rng.choice([n for n in RAW_NAMES if n not in ("_",)]), rand_value(rng)] for _ in range(rng.randint(0, 3))]
    return {"kids": kids, "dicts": dicts, "kw": kw}


def build_args(a):
    pos = []
    kids = [gen.build(k) for k in a["kids"]]
    dicts = [{k: gen.build_attr_value(v) for k, v in d} for d in a["dicts"]]
    # interleave deterministically: dict, kid, dict, kid ...
    for i in range(max(len(kids), len(dicts))):
        if i < len(dicts):
            pos.append(dicts[i])
        if i < len(kids):
            pos.append(kids[i])
    kw = {k: gen.build_attr_value(v) for k, v in a["kw"]}
    return pos, kw


def check_function(ctx, modname, name, f, inline, n_random, fn_index=0):
    rng = ctx.rng
    wit = {"module": modname, "function": name}
    ctx.count("functions_checked")
    try:
        t = f()
    except Exception as e:
        ctx.violation("tag-function-raises", "%s.%s() raised %r" % (modname, name, e), wit)
        return
    if not isinstance(t, ht.Tag) or type(t) is not ht.Tag:
        ctx.violation("tag-function-result-type", "%s.%s() returned %s" % (modname, name, type(t).__name__), wit)
        return
    if f.__name__ != name:
        ctx.violation("tag-function-name", "%s.%s has __name__ %r" % (modname, name, f.__name__), wit)
        return
    if t.name != name:
        ctx.violation("wrong-element-name", "%s.%s() creates <%s>" % (modname, name, t.name), wit)
        return
    default = name not in inline
    if t.add_ws is not default:
        ctx.violation("wrong-default-add-ws", "%s.%s() has add_ws=%r, the project classifies it as %s" % (modname, name, t.add_ws, "inline" if name in inline else "block"), wit)
        return
    sig = inspect.signature(f)
    p = sig.parameters.get("_add_ws")
    if p is None or p.default is not default or p.kind is not inspect.Parameter.KEYWORD_ONLY:
        ctx.violation("wrong-default-add-ws", "%s.%s signature default for _add_ws is %r" % (modname, name, getattr(p, "default", None)), wit)
        return
    for b in (True, False):
        if f(_add_ws=b).add_ws is not b or f("x", ht.span(), _add_ws=b, id="i").add_ws is not b:
            ctx.violation("explicit-add-ws-ignored", "%s.%s(_add_ws=%r) not honoured" % (modname, name, b), wit)
            return
    for bad in (None, 0, 1, "x", "True", 1.0, []):
        try:
            f(_add_ws=bad)
        except TypeError:
            continue
        except Exception as e:
            ctx.violation("non-bool-add-ws-wrong-exception", "%s.%s(_add_ws=%r) raised %r" % (modname, name, bad, e), wit)
            return
        ctx.violation("non-bool-add-ws-accepted", "%s.%s(_add_ws=%r) accepted" % (modname, name, bad), wit)
        return
    # each call creates its own element
    for mk_ in (lambda: f("k"), lambda: f(), lambda: f(id="i")):
        a, b = mk_(), mk_()
        if a is b or a.children is b.children or a.attrs is b.attrs:
            ctx.violation("tag-function-shares-state", "%s.%s returns shared objects" % (modname, name), wit)
            return
        a.append("mutated")
        a.attrs["data-mutated"] = "1"
        a.add_ws = not a.add_ws
        c = mk_()
        if fp(c) != fp(b):
            ctx.violation("tag-function-shares-state", "mutating one %s.%s() result shows up in a later call" % (modname, name), wit)
            return
    # an attribute map taken from another element is passed through like by Tag(): the new element gets its own map
    src = ht.Tag("z", id="i", class_="c")
    snap = fp(src)
    for mk_ in (lambda: f(src.attrs), lambda: f(src.attrs, "kid")):
        t_ = mk_()
        if t_.attrs is src.attrs:
            ctx.violation("tag-function-shares-state", "%s.%s(other.attrs) uses the other element's attribute map object" % (modname, name), wit)
            return
        t_.add_class("q")
        t_.attrs["x"] = "y"
        if fp(src) != snap:
            ctx.violation("tag-function-shares-state", "changing the result of %s.%s(other.attrs) changed the other element" % (modname, name), wit)
            return
    # pass-through: deterministic probes first (every function gets the same argument shapes), then random lists
    T = lambda s_: {"k": "text", "s": s_}
    probes = [{"kids": [T(x)], "dicts": [], "kw": []} for x in ("\nx", "\n", " lead", "trail ", "\t", "", "<b>&amp;", "\r\nq", "a\nb")]
    probes += [{"kids": [T("\nx"), T("\ny")], "dicts": [[["id", S_("i")]]], "kw": [["class_", S_("c")]]},
               {"kids": [{"k": "html", "s": "\n<i>"}], "dicts": [], "kw": []},
               {"kids": [{"k": "num", "v": 0}, {"k": "none"}, {"k": "list", "t": "tuple", "c": [T("\nz")]}], "dicts": [], "kw": [["data_x", {"t": "true"}]]},
               {"kids": [], "dicts": [[["style", S_("a:b;")]], [["style", S_("c:d;")]]], "kw": [["style", S_("e:f;")]]},
               {"kids": [gen.TAG("span", T("\nin"), ws=False)], "dicts": [], "kw": [["title", S_("\nt")]]},
               {"kids": [], "dicts": [[["xlink:href", S_("#a")]]], "kw": [["xlink_href", S_("#b")], ["xml_lang", S_("en")], ["data_x_y", S_("1")], ["aria_label", S_("l")]]},
               {"kids": [T("k")], "dicts": [], "kw": [["class_", S_("c")], ["for_", S_("f")], ["http_equiv", S_("r")], ["accept_charset", S_("u")], ["x__", S_("d")]]},
               {"kids": [], "dicts": [], "kw": [["target", S_("_blank")], ["href", S_("/x")]]},
               {"kids": [T("t")], "dicts": [[["target", S_("_blank")]]], "kw": [["download", {"t": "true"}], ["rel", S_("me")], ["type", S_("button")], ["role", S_("r")]]},
               {"kids": [gen.TAG("div", T("blk"), ws=True), gen.TAG("section", gen.TAG("p", T("x"), ws=True), ws=True), gen.TAG("span", T("inl"), ws=False)], "dicts": [], "kw": []},
               # the order of keyword attributes is the caller's order, whatever the names are
               {"kids": [], "dicts": [], "kw": [["class_", S_("c")], ["href", S_("/x")], ["id", S_("i")], ["src", S_("s")], ["name", S_("n")], ["type", S_("t")], ["value", S_("v")]]},
               {"kids": [], "dicts": [], "kw": [["value", S_("v")], ["type", S_("t")], ["name", S_("n")], ["src", S_("s")], ["id", S_("i")], ["href", S_("/x")], ["class_", S_("c")],
                                                ["alt", S_("a")], ["title", S_("t")], ["style", S_("k:v;")], ["width", {"t": "num", "v": 3}], ["height", {"t": "num", "v": 4}]]}]
    # very large calls for EVERY function, compared cheaply (kinds of the children in order, attributes, flag, rendering)
    for j_, args in enumerate(LARGE_PROBES):
        if j_ not in _LARGE_BUILT:
            _LARGE_BUILT[j_] = build_args(args)     # built once: the same argument objects go to every function (none may change them)
            _LARGE_BUILT[j_, "fp"] = len(_LARGE_BUILT[j_][0])
        pos, kw = _LARGE_BUILT[j_]
        want = ht.Tag(name, *pos, _add_ws=default, **kw)
        got = f(*pos, **kw)      # (the same argument objects: children must be the very same nodes in the same order)
        ctx.count("oracle.pass_through_large")
        if (len(got.children) != len(want.children) or any(a is not b for a, b in zip(got.children, want.children)) or dict(got.attrs) != dict(want.attrs)
                or got.add_ws is not want.add_ws or got.get_html_string() != want.get_html_string()):
            ctx.violation("pass-through-differs", "%s.%s(*a, **k) with more than a thousand children differs from Tag(%r, *a, ...)" % (modname, name, name),
                          dict(wit, n_children=(len(got.children), len(want.children))))
            return
    # the function's own element as its only / first / last child, and as both children
    own = lambda: gen.TAG(name, _T("inner"), ws=default, via_fn=False)   # noqa: E731
    probes += [{"kids": [own()], "dicts": [], "kw": []}, {"kids": [own(), _T("t")], "dicts": [], "kw": []}, {"kids": [_T("t"), own()], "dicts": [], "kw": []},
               {"kids": [own(), own()], "dicts": [], "kw": []}, {"kids": [{"k": "list", "t": "taglist", "c": [own()]}], "dicts": [], "kw": []},
               {"kids": [gen.TAG(name, ws=not default, via_fn=False)], "dicts": [], "kw": []}]
    n_all3 = len(probes)
    probes += STRUCTURE_PROBES + ATTRIBUTE_PROBES + INVALID_PROBES
    n_fixed = len(probes)
    import zlib as _zlib
    if _zlib.crc32(name.encode()) % 9 == 0:
        probes = probes + [LARGE_PROBE]   # (one function in nine gets the very large call too; with a random _add_ws form)
    for k_, args in enumerate(probes + [rand_args(rng) for _ in range(n_random)]):
      if k_ < n_fixed and ctx.nshards > 1 and (k_ + fn_index) % ctx.nshards != ctx.shard:
        continue   # (sharded runs - the thorough tier, the alternative passes - split the fixed probes between them)
      # the whitespace flag left out, and given explicitly either way (the first group of fixed probes all three ways, the others in rotation)
      for ws_mode in ((None, True, False) if k_ < n_all3 else ((None, True, False)[k_ % 3],) if k_ < n_fixed else (rng.choice([None, None, True, False]),)):
        w2 = dict(wit, args=args, _add_ws=ws_mode)
        ws_kw = {} if ws_mode is None else {"_add_ws": ws_mode}
        if k_ < n_fixed and not args["kids"]:
            # attribute-only probe: the argument values are immutable, one set of argument objects serves both calls, and the
            # results are compared field by field (names in order, values with their types, flag, no children)
            if id(args) not in _ATTR_ONLY_BUILT:
                _ATTR_ONLY_BUILT[id(args)] = build_args(args)
            pos, kw = _ATTR_ONLY_BUILT[id(args)]
            try:
                want, want_exc = ht.Tag(name, *pos, _add_ws=default if ws_mode is None else ws_mode, **kw), None
            except Exception as e:
                want, want_exc = None, e
            try:
                got, got_exc = f(*pos, **ws_kw, **kw), None
            except Exception as e:
                got, got_exc = None, e
            ctx.count("oracle.pass_through")
            ctx.count("oracle.pass_through_attribute_only")
            if (want_exc is None) != (got_exc is None) or (want_exc is not None and type(want_exc) is not type(got_exc)):
                ctx.violation("pass-through-exception-differs", "%s.%s(*a, **k): %r vs Tag(): %r" % (modname, name, got_exc, want_exc), w2)
                return
            if want is not None:
                sig_ = lambda t_: (type(t_) is ht.Tag, t_.name, t_.add_ws, len(t_.children), [(k2, type(v2).__name__, str(v2)) for k2, v2 in t_.attrs.items()])   # noqa: E731
                if sig_(got) != sig_(want):
                    ctx.violation("pass-through-differs", "%s.%s(**k) differs from Tag(%r, _add_ws=%r, **k): %r vs %r" % (modname, name, name, default, sig_(got)[1:], sig_(want)[1:]), w2)
                    return
            continue
        try:
            pos, kw = build_args(args)
            want = ht.Tag(name, *pos, _add_ws=default if ws_mode is None else ws_mode, **kw)
            want_exc = None
        except Exception as e:
            want, want_exc = None, e
        pos2, kw2 = build_args(args)
        arg_fp = fp(pos2)
        try:
            got = f(*pos2, **ws_kw, **kw2)
            got_exc = None
        except Exception as e:
            got, got_exc = None, e
        if fp(pos2) != arg_fp:
            ctx.violation("arguments-modified", "%s.%s(*a, **k) changed its arguments (children / attribute dicts are passed through, not altered)" % (modname, name), w2)
            return
        ctx.count("oracle.pass_through")
        ctx.case((modname, name, args), nontrivial=bool(args["kids"]) and bool(args["kw"] or any(args["dicts"])))
        if (want_exc is None) != (got_exc is None) or (want_exc is not None and type(want_exc) is not type(got_exc)):
            ctx.violation("pass-through-exception-differs", "%s.%s(*a, **k): %r vs Tag(): %r" % (modname, name, got_exc, want_exc), w2)
            return
        if want is None:
            continue
        if fp(got) != fp(want):
            ctx.violation("pass-through-differs", "%s.%s(*a, **k) differs structurally from Tag(%r, *a, _add_ws=%r, **k)" % (modname, name, name, default), w2)
            return
        if k_ % 3 and k_ < n_fixed:
            continue   # (structurally identical by fingerprint; the rendering is compared for every third fixed probe and all random ones)
        try:
            sa, sb = str(got), str(want)
        except Exception:
            sa = sb = None  # un-expanded doubles etc.: same on both sides by fingerprint
        if sa != sb:
            ctx.violation("pass-through-differs", "%s.%s(*a, **k) renders differently from Tag(...)" % (modname, name), w2)
            return


def run(ctx):
    inline = script_inline_set()
    ctx.notes["classification_source"] = "scripts/generate_tags.py" if inline is not None else "frozen copy (script missing/unparsable)"
    if inline is None:
        inline = set(FROZEN_INLINE)
    ctx.notes["classification_equals_frozen_copy"] = inline == FROZEN_INLINE
    ctx.notes["inline_names"] = len(inline)
    hf = functions(ht.tags)
    sf = functions(ht.svg)
    ctx.notes["html_functions"] = len(hf)
    ctx.notes["svg_functions"] = len(sf)
    if ctx.shard == 0:
        if len(hf) != 113 or len(sf) != 66:
            ctx.violation("tag-function-missing", "expected 113 HTML and 66 SVG tag functions, found %d and %d" % (len(hf), len(sf)),
                          {"html": len(hf), "svg": len(sf)})
        n_short = 0
        for n in SHORTCUTS:
            ctx.count("shortcuts_checked")
            if getattr(ht, n, None) is not getattr(ht.tags, n, object()):
                ctx.violation("shortcut-not-same-object", "htmltools.%s is not htmltools.tags.%s" % (n, n), {"name": n})
            else:
                n_short += 1
        exported = [n for n in ht.__all__ if callable(getattr(ht, n, None)) and getattr(getattr(ht, n), "__module__", "") == "htmltools.tags"]
        if sorted(exported) != sorted(SHORTCUTS):
            ctx.violation("shortcut-set-differs", "top-level tag shortcuts are %r" % sorted(exported), {"exported": sorted(exported)})
        ctx.notes["shortcuts"] = n_short
    n_random = 16000 if ctx.thorough else 30
    per_fn = max(1, n_random // ctx.nshards) if ctx.thorough else n_random
    for modname, fs in (("tags", hf), ("svg", sf)):
        for i, (name, f) in enumerate(fs):
            # every shard checks every function's fixed obligations; random argument lists are split
            ctx.guard(check_function, ctx, modname, name, f, inline, per_fn, i, witness={"module": modname, "function": name})
            ctx.state("functions", (modname, name))
    ctx.require("oracle.pass_through", 179)
    ctx.require("functions_checked", 179)
    ctx.exhaustive["all_tag_functions_fixed_obligations"] = True
    ctx.sample({"function": "tags.span", "default_add_ws": ht.tags.span().add_ws, "explicit": ht.tags.span(_add_ws=True).get_html_string()})
