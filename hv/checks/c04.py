"""C04 - trusted markup is emitted verbatim and escaping happens exactly once.

Oracle 1 (verbatim): uniquely marked hostile payloads (HTML(), _repr_html_ results, text of
script/style, HTML() attribute values) must occur byte-for-byte exactly as often as in the
recipe, and - for validly nested trees - the whole output must equal the reference layout.
Oracle 2 (algebra): expression trees over + / += / reflected + with str, HTML and number
leaves are evaluated on the live objects and on a provenance model side by side."""

from __future__ import annotations

import operator

from ..loader import ht
from ..ref import layout, charref
from ..mon import contracts, escape
from .. import gen, layoutgen as lg

ID = "C04"
LEVEL = "exploration"
RULE = ("(1) trees with hostile trusted payloads (metacharacters, entities, newlines, end tags, quotes) as HTML() children, "
        "_repr_html_ objects, script/style text and HTML() attribute values in every position (only child, first/middle/last, "
        "block/inline parent, top-level list) rendered via get_html_string/str/render; (2) random expression trees (depth<=8) "
        "over +, += and reflected + with str / HTML / number leaves in all groupings. non-trivial: (1) payload contains a "
        "metacharacter, (2) expression has >=1 HTML leaf, >=1 plain leaf with a metacharacter and >=2 operators; distinct by digest")
ASSUMPTIONS = ["hv.ref.layout decides placement for validly nested trees; plain text in these trees needs no escaping"]
SHARDS = {"quick": 1, "thorough": 16}

HOSTILE = ["</SCRIPT>", "</ScRiPt >", "\\n", "\\1x", "\\g<0>", "C:\\dir\\f", "<b>&amp;</b>", "</div>", "<!-- c -->", "a&b", "&lt;", "x\ny", "\n", "<script>alert(1)</script>", "</script>", "\"q\"", "'",
           "<![CDATA[x]]>", "&#60;", "  lead", "trail  ", "<p>\n  <i>t</i>\n</p>", "&", "<", ">", "\r\n", "é\U0001f600", "\x00"]


def payload(rng, ids, prefix):
    return ids.next(prefix) + "".join(rng.choice(HOSTILE) for _ in range(rng.randint(0, 3)))


# ------------------------------------------------------------------ oracle 1
def rand_trusted_tree(rng, ids, depth, valid, inside_inline=False):
    r = rng.random()
    if depth <= 0 or r < 0.35:
        k = rng.choice(["text", "html", "html", "obj", "obj", "meta"])
        if k == "text":
            return {"k": "text", "s": ids.next("t")}
        if k == "meta":
            return {"k": "meta"}
        if rng.random() < 0.08:
            return {"k": k, "s": ""}  # trusted content may be empty
        r_ = {"k": k, "s": payload(rng, ids, "h" if k == "html" else "o")}
        if k == "obj" and rng.random() < 0.3:
            r_["late"] = True   # its markup changes between being added and being rendered
        elif k == "obj" and rng.random() < 0.3:
            r_["iterable"] = True   # a data-frame-like object: self-rendering AND iterable
        return r_
    if r < 0.45:
        name = rng.choice(["script", "style"])
        n = rng.choice([1, 1, 2, 3])
        ws = rng.random() < 0.6 and not (valid and inside_inline)
        kids = [{"k": "text", "s": payload(rng, ids, "s")} for _ in range(n)]
        if rng.random() < 0.2:
            kids.append({"k": "html", "s": payload(rng, ids, "h")})
        return gen.TAG(name, *kids, ws=ws, via_fn=False, attrs=_attrs(rng, ids))
    block = rng.random() < 0.5 and not (valid and inside_inline)
    name = rng.choice(lg.BLOCKS if block else lg.INLINES)
    n = rng.choice([0, 1, 1, 2, 3, 4])
    kids = [rand_trusted_tree(rng, ids, depth - 1, valid, inside_inline or not block) for _ in range(n)]
    return gen.TAG(name, *kids, ws=block, via_fn=False, attrs=_attrs(rng, ids), how=rng.choice(gen.HOWS))


def _attrs(rng, ids):
    out = []
    if rng.random() < 0.35:
        out.append(["title", {"t": "html", "s": payload(rng, ids, "a")}])
    if rng.random() < 0.2:
        out.append(["id", {"t": "str", "s": ids.next("i")}])
    if rng.random() < 0.1:
        out.append(["class", {"t": "html", "s": payload(rng, ids, "a")}])
    if rng.random() < 0.12:
        # several values for ONE name (merged by the library), trusted ones with white space at their own ends: every byte of
        # a trusted value is kept
        edge = rng.choice([" ", "  ", "\t", ""])
        out.append(["data-m", {"t": "html", "s": edge + payload(rng, ids, "a").replace('"', "") + edge}])
        out.append(["data-m", {"t": rng.choice(["str", "html"]), "s": ids.next("m")}])
        if rng.random() < 0.5:
            out.append(["data_m", {"t": "html", "s": ids.next("m") + edge}])
    return out


def payloads_of(r):
    out = []
    for x in gen.walk(r):
        if x["k"] in ("html", "obj"):
            out.append(x["s"])
        elif x["k"] == "tag":
            for _, v in x["attrs"]:
                if v["t"] == "html":
                    out.append(v["s"])
            if x["name"] in ("script", "style"):
                for c in x["c"]:
                    if c["k"] == "text":
                        out.append(c["s"])
    return out


def check_tree(ctx, r, indent=0, eol="\n", view="get_html_string"):
    try:
        return _check_tree(ctx, r, indent, eol, view)
    except Exception as e:
        ctx.violation("render-raises", "building/rendering raised %r" % e, {"recipe": r, "indent": indent, "eol": eol, "view": view})
        return False


def _check_tree(ctx, r, indent, eol, view):
    obj = gen.build(r)
    if gen.fill_late():
        ctx.count("objects_changed_after_being_added")
    if view == "str":
        out = str(obj)
    elif view == "render":
        out = obj.render()["html"]
    elif view == "list":
        out = ht.TagList(obj).get_html_string(indent, eol)
    else:
        out = obj.get_html_string(indent, eol)
    ctx.count("oracle.verbatim")
    wit = {"recipe": r, "indent": indent, "eol": eol, "view": view, "output": out[:1500]}
    for p in payloads_of(r):
        if p == "":
            continue
        ctx.count("payloads_checked")
        if out.count(p) != 1:
            ctx.violation("trusted-payload-not-verbatim", "trusted payload %r occurs %d times in the output" % (p[:60], out.count(p)), wit)
            return False
    if layout.valid(r):
        want = layout.tag_str(r, indent, eol)
        ctx.count("oracle.placement")
        if out != want:
            wit["want"] = want[:1500]
            ctx.violation("trusted-payload-misplaced", "output differs from the reference placement", wit)
            return False
    return True


class SnippetHTML(ht.HTML):
    """Trusted markup kept as written in a template file; its markup is the text without the surrounding blank lines."""

    def as_string(self) -> str:
        return self.data.strip("\n")


# ------------------------------------------------------------------ oracle 2
def rand_expr(rng, depth, need_html=True):
    """Returns expression recipe; guarantees Python-valid operand types."""
    if depth <= 0 or rng.random() < 0.25:
        if need_html:
            return {"leaf": "html" if rng.random() < 0.85 else "htmlsnip", "v": "".join(rng.choice(HOSTILE + ["h"]) for _ in range(rng.randint(0, 2)))}
        k = rng.choice(["str", "str", "str", "html"])
        if k == "str":
            return {"leaf": "str", "v": gen.text_of(rng, rng.choice(["meta", "markup", "word", "mixed", "empty", "nl"]))}
        return {"leaf": "html", "v": "".join(rng.choice(HOSTILE + ["h"]) for _ in range(rng.randint(0, 2)))}
    # one side must be HTML-valued when need_html; numbers only next to an HTML-valued side
    side = rng.random() < 0.5
    a = rand_expr(rng, depth - 1, need_html and side)
    b = rand_expr(rng, depth - 1, need_html and not side)
    if need_html and rng.random() < 0.15:
        r_ = rng.random()
        num = {"leaf": "num", "v": rng.choice([0, 5, -3, 1.5, 1e300, True])} if r_ < 0.4 else \
            {"leaf": "strobj", "v": gen.text_of(rng, rng.choice(["meta", "markup", "word"]))} if r_ < 0.7 else \
            {"leaf": "tagobj" if (r_ < 0.9 or not side) else "taglistobj", "v": gen.text_of(rng, rng.choice(["meta", "markup", "word"]))}
        if side:
            b = num
        else:
            a = num
    return {"op": rng.choice(["add", "add", "iadd", "radd"]), "l": a, "r": b}


class StrObj:
    """An arbitrary object (not a str) whose text needs escaping."""

    def __init__(self, s):
        self.s = s

    def __str__(self):
        return self.s


class ExprFail(Exception):
    pass


def eval_expr(e, log, values=None):
    """Returns (live value, model) where model is ("str", s) or ("html", parts).
    `values` collects (live HTML object, its text when it was created) for every leaf and intermediate value."""
    if values is None:
        values = []
    if "leaf" in e:
        if e["leaf"] == "str":
            return e["v"], ("str", e["v"])
        if e["leaf"] == "html":
            h = ht.HTML(e["v"])
            values.append((h, e["v"]))
            return h, ("html", [("html", e["v"])])
        if e["leaf"] == "htmlsnip":
            # trusted markup of a subclass that says itself what its markup is (as_string() drops the blank lines kept around it
            # in the template file): that markup is what it contributes, as a child and as an operand
            text = e["v"].strip("\n")
            h = SnippetHTML("\n" + e["v"] + "\n")
            values.append((h, text))
            return h, ("html", [("html", text)])
        if e["leaf"] == "strobj":
            return StrObj(e["v"]), ("num", e["v"])  # any non-str object contributes str(object), escaped once
        if e["leaf"] in ("tagobj", "taglistobj"):
            # an element (or, as the right operand, a list) is such an object too: its str() is text to the concatenation
            o = ht.span(e["v"], title=e["v"]) if e["leaf"] == "tagobj" else ht.TagList(ht.span(e["v"]), e["v"])
            return o, ("num", str(o))
        return e["v"], ("num", e["v"])
    lv, lm = eval_expr(e["l"], log, values)
    rv, rm = eval_expr(e["r"], log, values)
    if e["op"] == "add":
        v = lv + rv
    elif e["op"] == "iadd":
        v = lv
        v += rv
    else:
        # the reflected method is what Python calls when the left operand's __add__ declines (str, int, float)
        v = rv.__radd__(lv) if isinstance(rv, ht.HTML) and not isinstance(lv, ht.HTML) else operator.add(lv, rv)
    if lm[0] == "html" or rm[0] == "html":
        def parts(m):
            if m[0] == "html":
                return m[1]
            return [("plain", m[1] if m[0] == "str" else str(m[1]))]
        m = ("html", parts(lm) + parts(rm))
        if not isinstance(v, ht.HTML):
            log.append("a concatenation involving HTML() yielded %s" % type(v).__name__)
        else:
            values.append((v, v.as_string()))
    else:
        m = ("str", lm[1] + rm[1])
        if isinstance(v, ht.HTML):
            log.append("str + str yielded HTML")
    return v, m


def leaves_as_children(m):
    out = []
    for kind, text in m[1]:
        out.append(ht.HTML(text) if kind == "html" else text)
    return out


def check_expr(ctx, e):
    log = []
    values = []
    wit = {"expr": e}
    try:
        v, m = eval_expr(e, log, values)
    except Exception as ex:
        ctx.violation("concat-raises", "evaluating the expression raised %r" % ex, wit)
        return False
    ctx.count("oracle.algebra")
    if log:
        ctx.violation("concat-loses-html-mark", log[0], wit)
        return False
    # operands and intermediate values are values: a later + / += must not have changed them
    for k, (obj, text) in enumerate(values):
        if obj is not v and obj.as_string() != text:
            ctx.violation("concat-mutates-operand", "an HTML() operand changed from %r to %r after it was used in a concatenation" % (text[:40], obj.as_string()[:60]), wit)
            return False
    if m[0] != "html":
        return True
    s = v.as_string()
    wit["value"] = s[:800]
    # leaf-by-leaf consumption: plain escaped exactly once, HTML verbatim
    pos = 0
    for kind, text in m[1]:
        if kind == "html":
            if not s.startswith(text, pos):
                ctx.violation("concat-html-operand-changed", "HTML operand %r not verbatim at offset %d" % (text[:40], pos), wit)
                return False
            pos += len(text)
        else:
            try:
                pos = charref.consume(s, pos, text, charref.TEXT_SET)
            except ValueError as err:
                ctx.violation("concat-plain-operand-not-escaped-once", "plain operand %r: %s" % (text[:40], err), wit)
                return False
    if pos != len(s):
        ctx.violation("concat-extra-text", "trailing %r" % s[pos:pos + 40], wit)
        return False
    # rendering as a child == rendering the operands as adjacent children
    kids = leaves_as_children(m)
    for mk in (lambda *c: ht.span(*c), lambda *c: ht.div(ht.span(), *c), lambda *c: ht.TagList(*c)):
        a = mk(v).get_html_string()
        b = mk(*kids).get_html_string()
        ctx.count("oracle.render_equiv")
        if a != b:
            wit.update(as_value=a[:600], as_children=b[:600])
            ctx.violation("concat-render-differs", "rendering the concatenation differs from rendering its operands", wit)
            return False
    a = ht.div(title=v).get_html_string()
    if ' title="%s"' % s not in a:
        ctx.violation("html-attr-not-verbatim", "HTML() attribute value not emitted verbatim", wit)
        return False
    # the same value taken through consolidate_attrs() and put on a tag
    attrs, _ = ht.consolidate_attrs({"title": v}, "child", data_v=v)
    b = ht.Tag("div", attrs).get_html_string()
    ctx.count("oracle.consolidate_route")
    if ' title="%s"' % s not in b or ' data-v="%s"' % s not in b:
        ctx.violation("html-attr-not-verbatim", "HTML() attribute value changed on its way through consolidate_attrs()", dict(wit, output=b[:600]))
        return False
    # the same value given later: add_class() / add_style() / item assignment / update()
    t1 = ht.div("x")
    t1.add_class(v)
    t2 = ht.span("y", class_="p q")    # (the plain neighbour has nothing to escape: how plain text is escaped is C03's subject)
    t2.add_class(v, prepend=True)
    t3 = ht.div("x")
    t3.attrs["class"] = v
    t4 = ht.div("x", class_="p q")
    t4.attrs.update({"class": v}, class_=v)
    late = [(t1, ' class="%s"' % s, "add_class"), (t2, ' class="%s p q"' % s, "add_class(prepend)"),
            (t3, ' class="%s"' % s, "attrs[...] = "), (t4, ' class="%s %s"' % (s, s), "attrs.update")]
    if s.endswith(";") and type(v) is ht.HTML:
        late.append((ht.div("x").add_style(v), ' style="%s"' % s, "add_style"))
        late.append((ht.div("x", style="a: b;").add_style(v, prepend=True), ' style="%s a: b;"' % s, "add_style(prepend)"))
    for t_, want, what in late:
        c = t_.get_html_string()
        ctx.count("oracle.late_attr_route")
        if want not in c:
            ctx.violation("html-attr-not-verbatim", "HTML() attribute value given through %s is not emitted verbatim" % what, dict(wit, output=c[:600], expected=want[:600]))
            return False
    return True


def n_ops(e):
    return 0 if "leaf" in e else 1 + n_ops(e["l"]) + n_ops(e["r"])


def leaves(e):
    if "leaf" in e:
        return [e]
    return leaves(e["l"]) + leaves(e["r"])


def check_saved(ctx, r, scratch):
    """Trusted payloads must also reach the file written by save_html verbatim."""
    import locale
    import os

    if "utf" not in locale.getpreferredencoding(False).lower():
        ctx.count("save_html_skipped_non_utf8_locale")
        return True
    wit = {"recipe": r, "view": "save_html"}
    obj = gen.build(r)
    gen.fill_late()
    pre_existing = ctx.counters["oracle.verbatim_saved"] % 3
    f = os.path.join(scratch, "c04-%d.html" % ctx.counters["oracle.verbatim_saved"])
    ctx.count("oracle.verbatim_saved")
    try:
        if pre_existing:
            # the destination already exists (an earlier, much longer - or empty - version of the page): what is there afterwards
            # is the new document and nothing else
            with open(f, "w", encoding="utf-8") as fh:
                fh.write("<!-- OLD PAGE -->\n" + "<p>old content that is longer than the new page</p>\n" * (4000 if pre_existing == 1 else 0))
        obj.save_html(f)
        with open(f, encoding="utf-8", newline="") as fh:
            out = fh.read()
        if pre_existing and ("OLD PAGE" in out or "old content" in out or not out.rstrip().endswith("</html>")):
            ctx.violation("trusted-payload-not-verbatim", "save_html over an existing file left some of the old file's content in place", dict(wit, tail=out[-200:]))
            return False
    except Exception as e:
        ctx.violation("render-raises", "save_html raised %r" % e, wit)
        return False
    finally:
        try:
            os.remove(f)
        except OSError:
            pass
    for p in payloads_of(r):
        if p and out.count(p) != 1:
            ctx.violation("trusted-payload-not-verbatim", "save_html: trusted payload %r occurs %d times in the written file" % (p[:60], out.count(p)), dict(wit, output=out[:800]))
            return False
    return True


def check_textdoc(ctx, payloads, in_script):
    """Trusted content of a dependency's head must reach an HTMLTextDocument rendering verbatim."""
    wit = {"payloads": payloads, "in_script": in_script}
    head = [ht.tags.script(p) if in_script else ht.HTML(p) for p in payloads]
    dep = ht.HTMLDependency("hd", "1.0", head=ht.TagList(*head))
    ctx.count("oracle.verbatim_textdoc")
    try:
        out = ht.HTMLTextDocument("<html><head>@@DEPS@@</head><body>b @@DEPS@@</body></html>", deps=[dep], deps_replace_pattern="@@DEPS@@").render()["html"]
    except Exception as e:
        ctx.violation("render-raises", "HTMLTextDocument.render() raised %r" % e, wit)
        return False
    for p in payloads:
        if p and out.count(p) != 1:
            ctx.violation("trusted-payload-not-verbatim", "HTMLTextDocument: trusted payload %r occurs %d times" % (p[:60], out.count(p)), dict(wit, output=out[:800]))
            return False
    # the template holds the placeholder twice; rendering the same document again gives the same text again
    doc = ht.HTMLTextDocument("<html><head>@@DEPS@@</head><body>b @@DEPS@@</body></html>", deps=[dep], deps_replace_pattern="@@DEPS@@")
    first = doc.render()["html"]
    second = doc.render()["html"]
    if first != out or second != first:
        ctx.violation("trusted-payload-not-verbatim", "HTMLTextDocument: rendering the same document twice gives different text (payloads duplicated?)", dict(wit, second=second[:800]))
        return False
    return True


def check_document_attr(ctx, p):
    """HTML() given as an attribute argument of a DOCUMENT is written as it is, like on any element."""
    wit = {"document_attr_payload": p}
    ctx.count("oracle.document_attr")
    for how, doc in (("fragment", ht.HTMLDocument(ht.div("b"), lang=ht.HTML(p), title="t")), ("user body", ht.HTMLDocument(ht.tags.body("b"), **{"data-h": ht.HTML(p)})),
                     ("user html", ht.HTMLDocument(ht.tags.html(ht.tags.body("b"), lang="xx"), lang=ht.HTML(p)))):
        out = doc.render()["html"]
        again = doc.render()["html"]
        head = out[:out.index("<head")]     # everything up to the <head> element: the doctype and the <html ...> tag
        if p and ('="%s"' % p) not in head or again != out:
            ctx.violation("trusted-payload-not-verbatim", "HTML() given as a document attribute (%s) is not written verbatim in the <html> tag" % how, dict(wit, how=how, output=head[:400]))
            return False
    return True


def check_list_arithmetic(ctx, p):
    """Trusted markup that reaches a child list through + / += / extend with the HTML() object itself as the operand."""
    wit = {"list_arithmetic_payload": p}
    ctx.count("oracle.list_arithmetic")
    outs = []
    a = ht.TagList(ht.span("k")) + ht.HTML(p)
    outs.append(("TagList + HTML", a.get_html_string()))
    b = ht.TagList(ht.span("k"))
    b += ht.HTML(p)
    outs.append(("TagList += HTML", b.get_html_string()))
    c = ht.div(ht.span("k"))
    c.extend(ht.HTML(p))
    outs.append(("Tag.extend(HTML)", c.get_html_string()))
    d = ht.HTML(p) + ht.TagList(ht.span("k"))
    outs.append(("HTML + TagList", d.get_html_string() if isinstance(d, ht.TagList) else str(d)))
    for how, out in outs:
        if p and p not in out:
            ctx.violation("trusted-payload-not-verbatim", "%s: trusted payload %r is not in the output verbatim" % (how, p[:60]), dict(wit, how=how, output=out[:600]))
            return False
    return True


def check_head_twins(ctx, p):
    """The same characters once as plain text and once as HTML() in head_content(): different content, both present
    (the plain one escaped, the trusted one verbatim)."""
    wit = {"head_twins": p}
    ctx.count("oracle.head_twins")
    doc = ht.HTMLDocument(ht.div("b", ht.head_content(p), ht.head_content(ht.HTML(p)), ht.head_content(ht.HTML(p))))
    out = doc.render()["html"]
    head = out[out.index("<head>"):out.index("</head>")]
    listing_end = head.find("</script>") + len("</script>") if "application/html-dependencies" in head else 0
    rest = head[listing_end:]
    esc = p.replace("&", "&amp;").replace("<", "&lt;").replace(">", "&gt;")
    if p and esc != p and (rest.count(p) != 1 or esc not in rest):
        ctx.violation("trusted-payload-not-verbatim", "plain / HTML() twins in head_content: trusted %r occurs %d times, escaped twin present: %s" % (p[:40], rest.count(p), esc in rest),
                      dict(wit, head=rest[:600]))
        return False
    return True


def check_json_pipeline(ctx, payloads):
    """str(tag) in JSON dependency mode, post-processed by HTMLTextDocument: trusted head markup arrives verbatim."""
    import htmltools as _h

    wit = {"json_pipeline_payloads": payloads}
    dep = ht.HTMLDependency("jp", "1.0", head=ht.TagList(*[ht.HTML(p) for p in payloads]))
    tag = ht.div("body text", dep)
    old = _h.html_dependency_render_mode
    _h.html_dependency_render_mode = "json"
    try:
        s_ = str(tag)
    finally:
        _h.html_dependency_render_mode = old
    ctx.count("oracle.verbatim_json_pipeline")
    try:
        out = ht.HTMLTextDocument("<html><head>@@DEPS@@</head><body>" + s_ + "</body></html>", deps_replace_pattern="@@DEPS@@").render()["html"]
    except Exception as e:
        ctx.violation("render-raises", "JSON-mode pipeline raised %r" % e, wit)
        return False
    for p in payloads:
        if p and out.count(p) != 1:
            ctx.violation("trusted-payload-not-verbatim", "JSON-mode pipeline: trusted payload %r occurs %d times" % (p[:60], out.count(p)), dict(wit, output=out[:800]))
            return False
    # several outputs written one after the other into one page (each ends with its serialised dependencies); the next output is
    # trusted markup that may start with a line break of its own: taking the serialised scripts out removes nothing else
    for lead in ("\n", "\r\n", "\n\n", " \n", "", "\r"):
        second = str(ht.HTML(lead + "<pre>\nsecond output " + (payloads[0] if payloads else "") + "</pre>"))
        page = "<html><head>@@DEPS@@</head><body>" + s_ + second + s_ + lead + "tail</body></html>"
        ctx.count("oracle.verbatim_json_pipeline_sequence")
        try:
            got = ht.HTMLTextDocument(page, deps_replace_pattern="@@DEPS@@").render()["html"]
        except Exception as e:
            ctx.violation("render-raises", "JSON-mode pipeline raised %r" % e, wit)
            return False
        direct = tag.render()["html"]
        body = got[got.index("<body>") + 6:got.rindex("</body>")]
        if body != direct + second + direct + lead + "tail":
            ctx.violation("trusted-payload-not-verbatim", "JSON-mode pipeline: text that follows a serialised dependency (starting with %r) is not kept byte for byte" % lead,
                          dict(wit, lead=lead, got=body[-300:], want=(direct + second + direct + lead + "tail")[-300:]))
            return False
    return True


def replay(ctx, w):
    if "document_attr_payload" in w:
        return check_document_attr(ctx, w["document_attr_payload"])
    if "list_arithmetic_payload" in w:
        return check_list_arithmetic(ctx, w["list_arithmetic_payload"])
    if "head_twins" in w:
        return check_head_twins(ctx, w["head_twins"])
    if "json_pipeline_payloads" in w:
        return check_json_pipeline(ctx, w["json_pipeline_payloads"])
    if "payloads" in w:
        return check_textdoc(ctx, w["payloads"], w["in_script"])
    if "expr" in w:
        check_expr(ctx, w["expr"])
    else:
        check_tree(ctx, w["recipe"], w.get("indent", 0), w.get("eol", "\n"), w.get("view", "get_html_string"))


def run(ctx):
    import shutil
    import tempfile

    escape.install(ctx)
    ctx.scratch = tempfile.mkdtemp(prefix="hv-c04-")
    try:
        _run(ctx)
    finally:
        contracts.unpatch_all()
        shutil.rmtree(ctx.scratch, ignore_errors=True)


def _run(ctx):
    rng = ctx.rng
    ctx.require("oracle.verbatim", 500)
    ctx.require("oracle.placement", 200)
    ctx.require("oracle.algebra", 500)
    ctx.require("oracle.render_equiv", 500)
    # raw-text elements and trusted markup in child lists far longer than any fast-path threshold
    if ctx.shard == 0:
        ids0 = lg.Ids()
        for kind in ("script", "style"):
            for n_, ws_ in ((520, True), (700, False), (2100, True)):
                kids = [{"k": "text", "s": ids0.next("p") + " if (a<b && c>d) {}"} for _ in range(n_)]
                kids[n_ // 2] = {"k": "html", "s": ids0.next("h") + "<!-- & -->"}
                check_tree(ctx, gen.TAG("div", gen.TAG(kind, *kids, ws=ws_, via_fn=False), ws=True), 0, "\n", "get_html_string")
                ctx.count("very_long_raw_text_elements")
        kids = [({"k": "html", "s": ids0.next("h") + "<b>&amp;</b>"} if k % 2 else {"k": "obj", "s": ids0.next("o") + "<i>&lt;</i>"}) for k in range(1300)]
        check_tree(ctx, gen.TAG("section", *kids, ws=True), 1, "\r\n", "get_html_string")
        check_tree(ctx, gen.TAG("span", *kids[:700], ws=False), 0, "\n", "str")
    # deterministic position matrix for each trusted kind
    ids = lg.Ids()
    i = 0
    for h in HOSTILE:
        for kind in ("html", "obj", "script", "style", "attr"):
            i += 1
            if not ctx.mine(i):
                continue
            def P():
                if kind in ("html", "obj"):
                    return {"k": kind, "s": ids.next("p") + h}
                if kind == "attr":
                    return gen.TAG("span", ws=False, via_fn=False, attrs=[["data-x", {"t": "html", "s": ids.next("p") + h}]])
                return gen.TAG(kind, {"k": "text", "s": ids.next("p") + h}, ws=False, via_fn=False)
            t = lambda: {"k": "text", "s": ids.next("t")}
            shapes = [gen.TAG("div", P()), gen.TAG("span", P(), ws=False), gen.TAG("div", P(), t()), gen.TAG("div", t(), P(), t()),
                      gen.TAG("div", gen.TAG("p", t()), P()), gen.TAG("div", gen.TAG("p", t()), P(), gen.TAG("p")),
                      gen.TAG("span", gen.TAG("b", t(), ws=False), P(), ws=False), gen.TAG("div", P(), P()),
                      gen.TAG("ul", gen.TAG("li", P()), gen.TAG("li", t(), P()))]
            if kind in ("script", "style"):
                shapes += [gen.TAG(kind, {"k": "text", "s": ids.next("p") + h}, {"k": "text", "s": ids.next("p") + h}, ws=True, via_fn=False),
                           gen.TAG(kind, {"k": "text", "s": ids.next("p") + h}, ws=True, via_fn=False, attrs=[["type", {"t": "str", "s": "x"}]])]
            for sh in shapes:
                for view, ind, eol in (("get_html_string", 0, "\n"), ("get_html_string", 2, "\r\n"), ("str", 0, "\n"), ("render", 0, "\n"), ("list", 1, "\n")):
                    check_tree(ctx, sh, ind, eol, view)
                    ctx.case((sh, view, ind, eol), nontrivial=bool(set(h) & set("&<>\"'")))
                ctx.state("kind_x_shape", (kind, shapes.index(sh)))
    ctx.sample({"recipe": gen.TAG("div", {"k": "html", "s": "p1;<b>&amp;</b>"}, {"k": "text", "s": "t2;"}),
                "output": ht.div(ht.HTML("p1;<b>&amp;</b>"), "t2;").get_html_string()})

    for _ in range(ctx.budget(3000, 2000000)):
        ids = lg.Ids()
        valid = rng.random() < 0.7
        r = rand_trusted_tree(rng, ids, rng.choice([1, 2, 3, 4, 5]), valid)
        if r["k"] != "tag":
            r = gen.TAG("div", r)
        view = rng.choice(["get_html_string", "get_html_string", "str", "render", "list"])
        ind, eol = (rng.choice([0, 1, 3]), rng.choice(["\n", "\r\n", "", "@@"])) if view in ("get_html_string", "list") else (0, "\n")
        if view == "list" and not layout.valid(r):
            view = "get_html_string"
        if view == "list":
            # TagList(tag) lays out the tag by the sibling rule at level indent == tag at that level
            pass
        check_tree(ctx, r, ind, eol, view)
        if rng.random() < 0.03 and "\r" not in "".join(payloads_of(r)):
            ctx.guard(check_saved, ctx, r, ctx.scratch, witness={"recipe": r, "view": "save_html"})
        ps = payloads_of(r)
        ctx.case((r, view, ind, eol), nontrivial=any(set(p) & set("&<>\"'") for p in ps))

    for _ in range(ctx.budget(400, 30000)):
        ids = lg.Ids()
        ps = [payload(rng, ids, "p") for _ in range(rng.randint(1, 3))]
        insc = rng.random() < 0.4
        check_textdoc(ctx, ps, insc)
        if rng.random() < 0.5:
            ctx.guard(check_json_pipeline, ctx, ps, witness={"json_pipeline_payloads": ps})
        ctx.guard(check_list_arithmetic, ctx, ps[0], witness={"list_arithmetic_payload": ps[0]})
        if '"' not in ps[0] and "\n" not in ps[0] and "\r" not in ps[0]:
            ctx.guard(check_document_attr, ctx, ps[0], witness={"document_attr_payload": ps[0]})
        if rng.random() < 0.5 and "<" in ps[0] and "\r" not in ps[0]:
            ctx.guard(check_head_twins, ctx, ps[0], witness={"head_twins": ps[0]})
        ctx.case(("textdoc", ps, insc), nontrivial=any("\\" in p or set(p) & set("&<>") for p in ps))
    ctx.sample({"expr": {"op": "add", "l": {"leaf": "str", "v": "a<b"}, "r": {"leaf": "html", "v": "<i>"}},
                "value": ("a<b" + ht.HTML("<i>")).as_string()})
    for _ in range(ctx.budget(3000, 2000000)):
        e = rand_expr(rng, rng.choice([1, 2, 3, 4, 5, 6, 8]))
        ctx.guard(check_expr, ctx, e, witness={"expr": e})
        lv = leaves(e)
        nt = (any(x["leaf"] == "html" for x in lv) and any(x["leaf"] == "str" and set(x["v"]) & set("&<>") for x in lv) and n_ops(e) >= 2)
        ctx.case(e, nontrivial=nt)
        ctx.state("expr_shapes", (min(n_ops(e), 12), e["op"] if "op" in e else "leaf"))
