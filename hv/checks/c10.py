"""C10 - dependencies are validated, then resolve one per name to the highest version.

Oracle: hv.ref.deps (own version ordering) compared by OBJECT IDENTITY with
get_dependencies() for document-order sequences scattered over several tree shapes;
contract on the live _resolve_dependencies; constructor validation matrix."""

from __future__ import annotations

import itertools

from ..loader import ht, core
from ..ref import deps as refdeps
from ..mon import contracts
from ..mon.purity import fp
from .. import gen

ID = "C10"
LEVEL = "exploration"
RULE = ("document-order sequences of 0-12 dependencies over 1-4 names and versions from {1, 1.0, 1.9, 1.10, 1.10.0, 2, 0.9.9, "
        "10.0, 1.2.3.4} (equal versions with different content included), ALL permutations of multisets of size<=6, random "
        "beyond; each sequence placed in 7 tree shapes (flat list, deep chain, scattered among tags, nested containers, a random tree consuming them in document order, tag "
        "root, inside appended children); constructor validation matrix enumerated. non-trivial = sequence has a name with "
        ">=2 distinct versions or an equal-version tie; distinct by (sequence, shape) digest")
ASSUMPTIONS = ["reference version order: dot-separated integers, trailing zeros insignificant"]
SHARDS = {"quick": 1, "thorough": 16}

VERSIONS = ["1", "1.0", "1.9", "1.10", "1.10.0", "2", "0.9.9", "10.0", "1.2.3.4", "1.2.3.4.5.6", "1.2.3.4.5.10", "1.100000000000000000000", "1.99999999999999999999",
            "0.0.0.0.0.1", "2024.10.3",
            # pre-releases, development builds and post-releases take their place in the version order too
            "2.0rc1", "1.0.dev3", "3.0a2", "2.9.post1", "1.10b2", "2.0rc1.post1", "10.0.dev1",
            # local version labels order after the same public version (numeric segments numerically), and a pre-release with a
            # label is still a pre-release
            "2+cdn", "2.0rc1+vendored", "1.10+build.5", "1.10+build.10", "1.0+abc", "1.0+5", "10.0.dev1+x"]
NAMES = ["alpha", "beta", "gamma", "delta"]
CASE_NAMES = ["alpha", "Alpha", "ALPHA", "stra\u00dfe", "strasse", "STRASSE", "made-as-alpha"]   # distinct names: nothing folds them together


def mk(seq, share=False):
    """seq: list of (name, version); returns live dependency objects with distinguishing content.  With share=True an
    entry equal to an earlier one re-uses that very object (the same dependency placed at several positions)."""
    out, first = [], {}
    for i, (n, v) in enumerate(seq):
        if share and (n, v) in first and i % 2:
            out.append(first[(n, v)])
            continue
        # (some dependencies are bare markers: no script, stylesheet, meta or head - they resolve like any other)
        if i % 5 == 4:
            from packaging.version import Version
            d = gen.SubDep(n, Version(v), script={"src": "f%d.js" % i})   # a subclass instance, version given as an object
        else:
            d = ht.HTMLDependency(n, v, script={"src": "f%d.js" % i}) if i % 3 else (ht.HTMLDependency(n, v, all_files=bool(i % 2)) if i % 2 else ht.HTMLDependency(n, v))
            
        if i % 11 == 3:
            # a head_content() dependency takes part in the order like any other (its name is a content hash, so it is unique per text)
            d = ht.head_content(ht.tags.title("hc for %s %s" % (n, v)))
            out.append(d)
            continue
        if i % 7 == 6:
            # the name was assigned after construction (a public attribute): the current name counts
            d = ht.HTMLDependency("made-as-" + n, v, script={"src": "f%d.js" % i})
            d.name = n
        first.setdefault((n, v), d)
        out.append(d)
    return out


def _div(*c):
    return ht.div(*c)


def place(shape, deps):
    """Place live deps in document order into a tree; returns (root, description)."""
    d = list(deps)
    if shape == "flat_list":
        return ht.TagList(*d)
    if shape == "deep_chain":
        # each dependency one level deeper, document order preserved (dep before the nested tag)
        node = None
        for dep in reversed(d):
            node = ht.div(dep, node) if node is not None else ht.div(dep)
        return ht.TagList(node) if node is not None else ht.TagList()
    if shape == "scattered":
        kids = []
        for i, dep in enumerate(d):
            kids.append(ht.span("t%d" % i, dep) if i % 4 == 0 else dep if i % 4 == 1 else ht.div(ht.p(ht.tags.b(dep)), "x") if i % 4 == 2
                        else ht.div([ht.img, ht.br, ht.tags.input, ht.tags.link, ht.hr, ht.tags.meta][i % 6](dep), "v"))
        return ht.div("lead", *kids, "tail")
    if shape == "nested_containers":
        half = len(d) // 2
        return ht.TagList([d[:half], (ht.TagList(*d[half:]),)], "x")
    if shape == "tag_root":
        return ht.tags.section(ht.div(*d[: len(d) // 3]), *d[len(d) // 3:])
    if shape == "assigned":
        # dependencies that arrive by item / slice assignment into tags that held only text so far
        t = ht.div("a", "b", "c")
        if d:
            t.children[1] = d[0]
            t.children[2:2] = d[1:]
        inner = ht.span("only text")
        outer = ht.div("x", inner)
        if d:
            inner.children[0:0] = []
        return ht.TagList(t) if len(d) % 2 else t
    if shape == "repeated_subtree":
        # the very same Tag object (with dependencies inside) placed at several positions
        half = len(d) // 2
        sub = ht.div(*d[:half], ht.span("s"))
        return ht.TagList(sub, ht.p(*d[half:]), sub, [sub])
    if shape == "random_tree":
        # a random tree consuming the dependencies in document order
        import random as _r
        rng = _r.Random(len(d) * 7919 + sum(map(ord, "".join(x.name + str(x.version) for x in d))))
        it = iter(d)
        left = [len(d)]

        def sub(depth):
            kids = []
            for _ in range(rng.randint(0, 4)):
                r = rng.random()
                if r < 0.4 and left[0]:
                    kids.append(next(it))
                    left[0] -= 1
                elif r < 0.6 or depth <= 0:
                    kids.append(rng.choice(["t", ht.HTML("<i>h</i>"), None, 3]))
                elif r < 0.8:
                    kids.append(rng.choice([ht.div, ht.span, ht.tags.ul, ht.p, ht.img, ht.br, ht.tags.input, ht.tags.link, ht.hr, ht.tags.script, ht.tags.head])(*sub(depth - 1), _add_ws=rng.random() < 0.5))
                else:
                    inner = sub(depth - 1)
                    kids.append(rng.choice([list, tuple, lambda x: ht.TagList(*x)])(inner))
            return kids

        top = sub(4)
        while left[0]:
            top.append(ht.div(next(it)))
            left[0] -= 1
        return ht.TagList(*top) if rng.random() < 0.5 else ht.div(*top)
    if shape == "tag_subclasses":
        # nodes that are instances of user subclasses of Tag, below ordinary tags and below each other
        kids = []
        for i, dep in enumerate(d):
            kids.append(gen.SubTag("x-card", dep) if i % 3 == 0 else ht.div(gen.SubTag("x-card", ht.span(dep), "t")) if i % 3 == 1
                        else gen.SubTag("x-outer", gen.SubTag("x-inner", dep)))
        return ht.div(*kids) if len(d) % 2 else ht.TagList(ht.p("lead"), *kids)
    if shape == "jsx_component":
        # inside a JSX component (children at two depths and a tag-valued prop); the conversion result carries them in order
        from ..loader import jsx_mod

        k3 = len(d) // 3
        comp = jsx_mod.jsx_tag_create("Deps.Holder")(*d[:k3], ht.div("in a tag", *d[k3:2 * k3]), jsx_mod.jsx_tag_create("Inner")(*d[2 * k3:]))
        return ht.div("lead", comp).tagify()
    if shape == "displayed_in_blocks":
        # dependencies displayed inside `with tag:` blocks (two levels), between displayed text
        import sys as _sys

        outer = ht.div()
        hook = _sys.displayhook
        _sys.displayhook = lambda v: None
        try:
            with outer:
                _sys.displayhook("lead")
                for i, dep in enumerate(d):
                    if i % 3 == 2:
                        inner = ht.span()
                        with inner:
                            _sys.displayhook(dep)
                            _sys.displayhook("t")
                        # (on leaving its block the inner tag is handed to the enclosing block's hook: it is a child of `outer` now)
                    else:
                        _sys.displayhook(dep)
        finally:
            _sys.displayhook = hook
        return outer
    if shape == "appended":
        t = ht.div()
        for dep in d:
            if id(dep) % 2:
                t.append(ht.span(dep))
            else:
                t.append(dep)
        return t
    raise ValueError(shape)


SHAPES = ["flat_list", "deep_chain", "jsx_component", "displayed_in_blocks", "scattered", "nested_containers", "tag_root", "appended", "random_tree", "assigned", "tag_subclasses"]


def same_ids(a, b):
    return len(a) == len(b) and all(x is y for x, y in zip(a, b))


def check_seq(ctx, seq, shapes=SHAPES, share=False):
    wit = {"sequence": seq, "same_object_reused": share}
    deps = mk(seq, share)
    if deps and "repeated_subtree" not in shapes and ctx.rng.random() < 0.3:
        # document order when one subtree object occurs three times: its dependencies occur three times
        half = len(deps) // 2
        root = place("repeated_subtree", deps)
        order = deps[:half] + deps[half:] + deps[:half] + deps[:half]
        raw = root.get_dependencies(dedup=False)
        ctx.count("oracle.repeated_subtree")
        if not same_ids(raw, order):
            ctx.violation("dedup-false-not-document-order", "get_dependencies(dedup=False) with a tag object placed three times dropped or reordered",
                          dict(wit, shape="repeated_subtree", got=[(x.name, str(x.version)) for x in raw]))
            return False
        want_r = refdeps.resolve(order, name=lambda x: x.name, version=lambda x: str(x.version))
        if not same_ids(root.get_dependencies(), want_r):
            ctx.violation("resolution-wrong-version-or-tie", "resolution over a repeated subtree differs from the reference", dict(wit, shape="repeated_subtree"))
            return False
    want = refdeps.resolve(deps, name=lambda d: d.name, version=lambda d: str(d.version))
    # the reference must use the user's version string, not the library's parse: map back
    want = refdeps.resolve(list(zip(seq, deps)), name=lambda it: it[1].name, version=lambda it: str(it[1].version) if it[1].name.startswith("headcontent_") else it[0][1])
    want = [d for _, d in want]
    for shape in shapes:
        root = place(shape, deps)
        got = root.get_dependencies()
        if shape == "jsx_component":
            got = [x for x in got if x.name not in ("react", "react-dom")]     # (what the component itself brings)
        ctx.count("oracle.resolution")
        idx = {id(d): i for i, d in reversed(list(enumerate(deps)))}
        w = dict(wit, shape=shape, got=[(d.name, str(d.version), idx.get(id(d), -1)) for d in got],
                 want=[(d.name, str(d.version), idx.get(id(d), -1)) for d in want])
        if shape == "jsx_component":
            # (the conversion works on copies of the component's nodes: compared by value)
            if [(x.name, str(x.version)) for x in got] != [(x.name, str(x.version)) for x in want] or any(a != b for a, b in zip(got, want)):
                ctx.violation(_classify(got, want, deps), "get_dependencies() of a converted JSX component is not the reference resolution", w)
                return False
        elif not same_ids(got, want):
            ctx.violation(_classify(got, want, deps), "get_dependencies() in shape %s is not the reference resolution" % shape, w)
            return False
        raw = root.get_dependencies(dedup=False)
        if shape == "jsx_component":
            raw = [x for x in raw if x.name not in ("react", "react-dom")]
            ctx.state("shapes", shape)
            if [(x.name, str(x.version)) for x in raw] != [(x.name, str(x.version)) for x in deps] or any(a != b for a, b in zip(raw, deps)):
                ctx.violation("dedup-false-not-document-order", "get_dependencies(dedup=False) of a converted JSX component dropped or reordered", w)
                return False
            continue
        if isinstance(root, ht.Tag) and not same_ids(root.get_dependencies(False), raw):
            ctx.violation("dedup-false-not-document-order", "Tag.get_dependencies(False) (positional) differs from dedup=False", w)
            return False
        if not same_ids(raw, deps):
            ctx.violation("dedup-false-not-document-order", "get_dependencies(dedup=False) in shape %s dropped or reordered" % shape, w)
            return False
        # the returned list belongs to the caller: emptying it does not affect the next query
        got_copy = list(got)
        got.clear()
        got = root.get_dependencies()
        if not same_ids(got, got_copy):
            ctx.violation("returned-list-aliased", "get_dependencies() after the caller emptied the previous result differs", w)
            return False
        again = ht.TagList(*got).get_dependencies()
        if not same_ids(again, got):
            ctx.violation("resolution-not-idempotent", "resolving the resolved list changed it", w)
            return False
        if ctx.rng.random() < 0.3:
            # the same content as a document (items of a list root become the document's top-level content)
            doc = ht.HTMLDocument(*list(root)) if isinstance(root, ht.TagList) else ht.HTMLDocument(root)
            drendered = doc.render()
            dd = drendered["dependencies"]
            ctx.count("oracle.document_resolution")
            # ... and what the document loads is what was resolved: the script of each resolved object once, of no other object
            import re as _re2
            loaded = _re2.findall(r'<script src="[^"]*?(f\d+\.js)"', drendered["html"])
            want_loaded = [s_["src"] for x in want for s_ in x.script]
            if loaded != want_loaded:
                ctx.violation("resolution-order", "the scripts HTMLDocument loads in shape %s (%s) are not those of the resolved objects (%s)" % (shape, loaded[:6], want_loaded[:6]), w)
                return False
            if [(x.name, str(x.version)) for x in dd] != [(x.name, str(x.version)) for x in want] or any(a != b for a, b in zip(dd, want)):
                ctx.violation("resolution-order", "HTMLDocument.render()['dependencies'] in shape %s differs from the resolved list" % shape, w)
                return False
        rd = root.render()["dependencies"]
        if [(d.name, str(d.version)) for d in rd] != [(d.name, str(d.version)) for d in want] or any(a != b for a, b in zip(rd, want)):
            ctx.violation("render-deps-differ", "render()['dependencies'] in shape %s differs from the resolved list (by value)" % shape, w)
            return False
        if shape in ("flat_list", "scattered", "tag_subclasses") and ctx.rng.random() < 0.25:
            # the serialising string form (dependencies written after the markup) writes the RESOLVED list, once each, in order
            import htmltools as _h
            import json as _json
            import re as _re

            old_mode = _h.html_dependency_render_mode
            _h.html_dependency_render_mode = "json"
            try:
                s_ = str(root)
            finally:
                _h.html_dependency_render_mode = old_mode
            ctx.count("oracle.json_mode_resolution")
            got_j = []
            for m_ in _re.findall(r'<script type="application/json" data-html-dependency="">(.*?)</script>', s_, _re.S):
                j_ = _json.loads(m_)
                got_j.append((j_["name"], str(j_["version"])))
            want_j = [(d.name, str(d.version)) for d in want]
            if got_j != want_j:
                ctx.violation("resolution-wrong-set", "str() in the JSON dependency mode serialises %r, the resolved list is %r" % (got_j[:8], want_j[:8]), w)
                return False
        ctx.state("shapes", shape)
    # a later addition is seen by the next query (nothing is remembered from the first one)
    if deps and isinstance(root, ht.Tag):
        newer = ht.HTMLDependency(seq[0][0], "99.0", script={"src": "newer.js"})
        fresh = ht.HTMLDependency("zz-late", "1.0")
        root.append(ht.span(newer), fresh)
        got = root.get_dependencies()
        want2 = refdeps.resolve(list(zip(list(seq) + [(seq[0][0], "99.0"), ("zz-late", "1.0")], deps + [newer, fresh])),
                                name=lambda it: it[1].name, version=lambda it: str(it[1].version) if it[1].name.startswith("headcontent_") else it[0][1])
        ctx.count("oracle.resolution_after_append")
        if not same_ids(got, [d for _, d in want2]):
            ctx.violation("stale-dependencies-after-append", "get_dependencies() after appending newer dependencies is not the reference resolution",
                          dict(wit, got=[(d.name, str(d.version)) for d in got]))
            return False
    return True


def _classify(got, want, deps):
    if sorted(map(id, got)) == sorted(map(id, want)):
        return "resolution-order"
    if [d.name for d in got] == [d.name for d in want]:
        return "resolution-wrong-version-or-tie"
    return "resolution-wrong-set"


def install_contract(ctx):
    def post(a, kw, res):
        deps = a[0] if a else kw.get("deps")
        want = refdeps.resolve(list(deps), name=lambda d: d.name, version=lambda d: str(d.version))
        ctx.count("contract.resolve.checked")
        if not same_ids(res, want):
            ctx.violation("resolve-contract", "_resolve_dependencies result differs from the reference",
                          {"input": [(d.name, str(d.version)) for d in deps], "result": [(d.name, str(d.version)) for d in res]})

    contracts.wrap_function([core], "_resolve_dependencies", post, ctx, "contract.resolve")


# ------------------------------------------------------------------ validation matrix
GOOD_SOURCES = [None, {"subdir": "x"}, {"package": "htmltools", "subdir": "libtest"}, {"href": "https://e.org/x"}, {"href": "h", "subdir": "s"}]
import pathlib as _pl
import collections as _col
import types as _tp
BAD_SOURCES = ["lib/", ["subdir", "x"], ("href", "u"), 5, {"package": "htmltools"}, {}, {"path": "x"},
               # path objects, byte strings and mapping-likes are not dicts either
               _pl.Path("lib"), _pl.PurePosixPath("some/dir"), b"lib", _col.UserDict({"subdir": "x"}), _tp.MappingProxyType({"href": "u"}), [("subdir", "x")], True, 0.5]
ITEM = {"script": ("src", {"src": "a.js", "defer": ""}), "stylesheet": ("href", {"href": "a.css", "media": "all"}),
        "meta": (("name", "content"), {"name": "n", "content": "c"})}


def validation_matrix(ctx):
    def accepts(**kw):
        try:
            return ht.HTMLDependency("v", "1.0", **kw), None
        except Exception as e:
            return None, e

    for s in GOOD_SOURCES:
        d, e = accepts(source=s)
        ctx.count("oracle.validation")
        ctx.case(("source-ok", repr(s)), nontrivial=True)
        if d is None:
            ctx.violation("valid-definition-rejected", "source=%r rejected: %r" % (s, e), {"source": repr(s)})
    for s in BAD_SOURCES:
        d, e = accepts(source=s)
        ctx.count("oracle.validation")
        ctx.case(("source-bad", repr(s)), nontrivial=True)
        if d is not None:
            ctx.violation("malformed-source-accepted", "source=%r accepted" % (s,), {"source": repr(s)})
    for field, (req, good) in ITEM.items():
        reqs = (req,) if isinstance(req, str) else req
        # single item vs one-element list
        import copy as _c

        a, e1 = accepts(**{field: _c.deepcopy(good)})
        b, e2 = accepts(**{field: [_c.deepcopy(good)]})
        ctx.count("oracle.validation")
        ctx.case(("single-vs-list", field), nontrivial=True)
        if a is None or b is None:
            ctx.violation("valid-definition-rejected", "%s item rejected: %r %r" % (field, e1, e2), {"field": field})
        else:
            if fp(a) != fp(b) or a.as_dict() != b.as_dict() or not (a == b):
                ctx.violation("single-item-vs-list-differ", "%s given as a dict and as a one-element list differ" % field, {"field": field})
            if str(a.as_html_tags()) != str(b.as_html_tags()):
                ctx.violation("single-item-vs-list-differ", "%s: rendered tags differ" % field, {"field": field})
        two, e = accepts(**{field: [_c.deepcopy(good), _c.deepcopy(good)]})
        if two is None:
            ctx.violation("valid-definition-rejected", "%s two-item list rejected: %r" % (field, e), {"field": field})
        # missing required key(s), alone / in a list / second in a list
        for r in reqs:
            bad = {k: v for k, v in good.items() if k != r}
            for form, val in (("single", bad), ("list", [bad]), ("second", [_c.deepcopy(good), bad])):
                d, e = accepts(**{field: val})
                ctx.count("oracle.validation")
                ctx.case(("missing", field, r, form), nontrivial=True)
                if d is not None:
                    ctx.violation("item-missing-required-key-accepted", "%s without %r (%s form) accepted" % (field, r, form), {"field": field, "form": form})
        # an empty item, and required keys in another letter case / with blanks, are missing required keys
        variants = [{}] + [{(k.upper() if k == r0 else k): v for k, v in good.items()} for r0 in reqs] + [{(k.capitalize() if k == r0 else k): v for k, v in good.items()} for r0 in reqs] \
            + [{(" " + k if k == r0 else k): v for k, v in good.items()} for r0 in reqs]
        for bad in variants:
            for form, val in (("single", bad), ("list", [bad]), ("second", [_c.deepcopy(good), bad])):
                d, e = accepts(**{field: val})
                ctx.count("oracle.validation")
                ctx.case(("missing-variant", field, repr(sorted(bad)), form), nontrivial=True)
                if d is not None:
                    ctx.violation("item-missing-required-key-accepted", "%s item %r (%s form) accepted" % (field, bad, form), {"field": field, "form": form})
        # missing required key although optional keys are present
        optional = {"script": [{"async": "", "defer": "", "type": "module", "integrity": "x", "crossorigin": "anonymous"}],
                    "stylesheet": [{"media": "print", "rel": "preload", "as": "style", "title": "t"}],
                    "meta": [{"http-equiv": "refresh"}, {"charset": "utf-8"}, {"http-equiv": "x", "charset": "y"}]}[field]
        for opt in optional:
            for r in reqs:
                bad = dict({k: v for k, v in good.items() if k != r}, **opt)
                for form, val in (("single", bad), ("list", [bad])):
                    d, e = accepts(**{field: val})
                    ctx.count("oracle.validation")
                    ctx.case(("missing+optional", field, r, form, tuple(opt)), nontrivial=True)
                    if d is not None:
                        ctx.violation("item-missing-required-key-accepted", "%s without %r but with %r (%s form) accepted" % (field, r, sorted(opt), form), {"field": field, "form": form})
            okv = dict(good, **opt)
            d, e = accepts(**{field: okv})
            if d is None:
                ctx.violation("valid-definition-rejected", "%s with optional keys %r rejected: %r" % (field, sorted(opt), e), {"field": field})
        # non-dict items
        import collections as _co
        import types as _ty

        for val in ("a.js", ["a.js"], [_c.deepcopy(good), "x"], [["src", "a"]], 7, [None], 0, False, 0.0, [[]], [0], [False], [""],   # (an EMPTY collection of items - "", (), set() - simply has no item to refuse)
                    # things that could be turned into a dict, but are not one
                    [list(good.items())], [tuple(good.items())], [_co.UserDict(good)], [_ty.MappingProxyType(dict(good))],
                    _co.UserDict(good), _ty.MappingProxyType(dict(good)), [_c.deepcopy(good), list(good.items())], [good.items()]):
            d, e = accepts(**{field: val})
            ctx.count("oracle.validation")
            ctx.case(("nondict", field, repr(val)), nontrivial=True)
            if d is not None:
                ctx.violation("non-dict-item-accepted", "%s=%r accepted" % (field, val), {"field": field, "value": repr(val)})
    ctx.exhaustive["constructor_validation_matrix"] = True


def rand_seq(rng, n):
    k = rng.randint(1, 4)
    names = NAMES[:k] if rng.random() < 0.85 else rng.sample(CASE_NAMES, k)
    return [(rng.choice(names), rng.choice(VERSIONS)) for _ in range(n)]


def nontrivial(seq):
    by = {}
    for n, v in seq:
        by.setdefault(n, []).append(v)
    return any(len(vs) >= 2 for vs in by.values())


def replay(ctx, w):
    install_contract(ctx)
    try:
        check_seq(ctx, [tuple(x) for x in w["sequence"]], share=w.get("same_object_reused", False))
    finally:
        contracts.unpatch_all()


def run(ctx):
    install_contract(ctx)
    try:
        _run(ctx)
    finally:
        contracts.unpatch_all()


def _run(ctx):
    rng = ctx.rng
    ctx.require("oracle.resolution", 500)
    ctx.require("contract.resolve.checked", 500)
    ctx.require("oracle.validation", 40)
    if ctx.shard == 0:
        validation_matrix(ctx)
        # ... and the same matrix again after reading HTML text whose embedded definition cannot be rebuilt
        for bad in ('{"name": "b", "version": "1.0", "source": 5}', '{"name": "b", "version": "1.0", "script": [{"nosrc": 1}]}', '{"name": "b"'):
            try:
                ht.HTMLTextDocument('<p>x</p><script type="application/json" data-html-dependency="">' + bad + '</script>', deps_replace_pattern="@@")
            except Exception:
                pass
        validation_matrix(ctx)
        ctx.count("validation_matrix_after_failed_extraction")
    # exhaustive permutations of small multisets
    multisets = [
        [("a", "1.9"), ("a", "1.10"), ("a", "1.10.0"), ("b", "2"), ("b", "1")],
        [("a", "1"), ("a", "1.0"), ("a", "0.9.9"), ("b", "10.0"), ("b", "2"), ("c", "1.2.3.4")],
        [("a", "1.10"), ("a", "1.9"), ("a", "2"), ("a", "1.10.0")],
    ]
    if ctx.thorough:
        multisets += [[("a", "1.9"), ("a", "1.10"), ("b", "1.9"), ("b", "1.10"), ("a", "10.0"), ("b", "1.2.3.4")],
                      [("x", "1.0"), ("x", "1"), ("x", "1.0"), ("y", "2"), ("y", "2"), ("x", "0.9.9")]]
    idx = 0
    seen = set()
    for ms in multisets:
        for perm in itertools.permutations(ms):
            if perm in seen:
                continue
            seen.add(perm)
            idx += 1
            if not ctx.mine(idx):
                continue
            check_seq(ctx, list(perm), shapes=["flat_list", "scattered", "tag_subclasses", "displayed_in_blocks"] if not ctx.thorough else SHAPES)
            ctx.case(perm, nontrivial=nontrivial(perm))
            ctx.count("permutations")
    ctx.exhaustive["all_orders_of_listed_multisets"] = True
    ctx.sample({"sequence": multisets[0], "resolved": [(d.name, str(d.version)) for d in ht.TagList(*mk(multisets[0])).get_dependencies()]})
    for _ in range(ctx.budget(1500, 1000000)):
        seq = rand_seq(rng, rng.choice([0, 1, 2, 3, 4, 5, 7, 9, 12] * 6 + [55, 130]))
        if len(seq) > 50:
            ctx.count("sequences_of_more_than_50_dependencies")
        check_seq(ctx, seq, share=rng.random() < 0.3)
        ctx.case(seq, nontrivial=nontrivial(seq))
