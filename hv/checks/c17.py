"""C17 - tag context manager restores the display hook and collects children in order.

Programs of nested `with tag:` blocks are interpreted with real with-statements; an
exception is injected at every statement position in turn (fault enumeration).  An online
trace monitor on Tag.__enter__/__exit__ keeps a shadow stack and asserts hook restoration
at each exit; the outermost hook is a recorder; expected children come from the flatten
model applied to the values displayed, in order."""

from __future__ import annotations

import sys

from ..loader import ht, core
from ..ref import flatten as F
from ..mon import contracts
from .. import gen

ID = "C17"
LEVEL = "fault_enumeration"
RULE = ("program skeletons Block(tag, [Display(v) | Block | Raise | ReEnter(active tag) | Try[...]]) up to depth 4 and 10 "
        "statements; displayed values None, Ellipsis, str, numbers, Tag, TagList, HTML, dependency, tagifiable, _repr_html_ "
        "object, lists, invalid object, _repr_html_ that raises; outer recorder optionally raising on delivery. For EVERY "
        "skeleton an exception is injected at every statement position in turn and at none. A case is (skeleton, injection "
        "point); non-trivial = nesting depth>=2 and >=3 statements; distinct by digest")
ASSUMPTIONS = ["a tag is never re-entered after its block has finished (outside the statement)",
               "REPL display is emulated by calling sys.displayhook(value) as the interactive loop does"]
SHARDS = {"quick": 1, "thorough": 16}


class Boom(Exception):
    pass


class BoomBase(BaseException):
    """Not an Exception subclass (like GeneratorExit / KeyboardInterrupt / SystemExit): blocks are left the same way."""


# what an injected fault or a program `raise` raises, by position: mostly ordinary exceptions, now and then one of the kinds
# that `except Exception` does not see
RAISED_KINDS = [Boom, Boom, Boom, KeyboardInterrupt, Boom, GeneratorExit, Boom, SystemExit, Boom, BoomBase]
LEAVES_BLOCKS = (Boom, BoomBase, KeyboardInterrupt, GeneratorExit, SystemExit)


class StrRepr(str):
    """A str subclass that is self-rendering: displayed, it is kept as HTML like every _repr_html_ object."""

    def _repr_html_(self):
        return "<em>sr</em>"


class _Expr:
    """What an overloaded comparison returns (a query-builder column, a symbolic expression)."""

    def __init__(self, truth):
        self.truth = truth

    def __bool__(self):
        if self.truth is None:
            raise TypeError("the truth value of an expression is ambiguous")
        return self.truth


class SymbolicRepr:
    """Self-rendering value whose == builds an expression instead of answering (truthy, falsy, or refusing to be a bool)."""

    def __init__(self, truth):
        self.truth = truth

    def __eq__(self, other):
        return _Expr(self.truth)

    __hash__ = None

    def _repr_html_(self):
        return "<code>column</code>"


class SymbolicTF(SymbolicRepr):
    def tagify(self):
        return ht.TagList("expanded column")


class TupleComponent(tuple):
    """A tuple subclass (a NamedTuple-style component) that can also expand itself: as a child it is a tuple - its items are the children."""

    def tagify(self):
        return ht.TagList("never asked: a tuple is spliced")


class ReprRaises:
    def _repr_html_(self):
        raise ValueError("repr failed")


class Monitor:
    """Online trace monitor; installed on Tag.__enter__/__exit__."""

    def __init__(self, ctx):
        self.ctx = ctx
        self.stack = []  # (tag, hook installed when it was entered)
        self.events = []
        self.problems = []

    def install(self):
        mon = self

        def before_enter(self_, a, kw):
            return sys.displayhook

        def after_enter(self_, a, kw, token, res, exc):
            mon.ctx.count("monitor.enter")
            mon.events.append(("enter", id(self_), id(token), id(sys.displayhook), type(exc).__name__ if exc else None))
            if exc is not None:
                if sys.displayhook is not token:
                    mon.problems.append(("hook-changed-by-refused-entry", "sys.displayhook changed although __enter__ raised"))
                return
            if sys.displayhook is token:
                mon.problems.append(("enter-did-not-install-hook", "__enter__ left sys.displayhook unchanged"))
            mon.stack.append((self_, token))

        def before_exit(self_, a, kw):
            return sys.displayhook

        def after_exit(self_, a, kw, token, res, exc):
            mon.ctx.count("monitor.exit")
            mon.events.append(("exit", id(self_), id(token), id(sys.displayhook), type(exc).__name__ if exc else None))
            if not mon.stack or mon.stack[-1][0] is not self_:
                mon.problems.append(("exit-without-matching-enter", "__exit__ of a tag that is not the innermost active block"))
                return
            _, saved = mon.stack.pop()
            if sys.displayhook is not saved:
                mon.problems.append(("hook-not-restored", "after __exit__ sys.displayhook is not the hook that was installed when the block was entered"))

        contracts.wrap_method(ht.Tag, "__enter__", before=before_enter, after=after_enter)
        contracts.wrap_method(ht.Tag, "__exit__", before=before_exit, after=after_exit)


class Recorder:
    def __init__(self, raise_on=None, returns_value=False):
        self.delivered = []
        self.raise_on = raise_on
        self.returns_value = returns_value

    def __call__(self, value):
        self.delivered.append(value)
        if self.raise_on is not None and len(self.delivered) == self.raise_on:
            raise Boom("recorder refuses delivery %d" % self.raise_on)
        # a hook is free to return something (e.g. the value it displayed); that must not influence the block
        return value if self.returns_value else None

    def __len__(self):
        # a collector object used as a hook: "empty" (falsy) until something was delivered - it is still the hook
        return len(self.delivered)

    def __wrapped__(self, value):  # what functools.wraps leaves on a decorated hook: NOT where displayed values go
        self.delivered.append(("delivered-to-__wrapped__", value))


class LazyProxy:
    """Offers `_repr_html_` only dynamically (through __getattr__): by the normal child rules - the runtime protocols look at
    what the object statically has - it is not a self-rendering object and not a valid child."""

    def __getattr__(self, name):
        if name == "_repr_html_":
            return lambda: "<i>from the proxied object</i>"
        raise AttributeError(name)


# ------------------------------------------------------------------ program generation
VALUE_KINDS = ["strrepr", "inst_repr", "inst_tagify", "inst_none", "none", "ellipsis", "text", "num", "tag", "taglist", "html", "dep", "meta", "tf", "obj", "tfobj", "list", "badlist", "bad", "reprraise", "emptystr", "wrapprev", "proxy", "symrepr", "symtf", "tuplecomp"]


def rand_value(rng):
    k = rng.choice(VALUE_KINDS)
    if k == "text":
        return {"k": "text", "s": rng.choice(["a", "b c", "<x>"])}
    if k == "emptystr":
        return {"k": "text", "s": ""}
    if k == "num":
        return {"k": "num", "v": rng.choice([0, 3, 2.5, True])}
    if k == "tag":
        return gen.TAG(rng.choice(["span", "p"]), {"k": "text", "s": "k"}, ws=False)
    if k == "taglist":
        return {"k": "list", "t": "taglist", "c": [{"k": "text", "s": "l1"}, gen.TAG("b", ws=False)]}
    if k == "html":
        return {"k": "html", "s": "<i>h</i>"}
    if k == "dep":
        return {"k": "dep", "name": "d", "version": "1.0"}
    if k == "tf":
        return {"k": "tf", "ret": "list", "c": [{"k": "text", "s": "p"}]}
    if k == "obj":
        return {"k": "obj", "s": "<u>o</u>"}
    if k == "tfobj":
        return {"k": "tfobj", "ret": "list", "c": [{"k": "text", "s": "p"}], "s": "<s>r</s>"}
    if k == "list":
        return {"k": "list", "t": rng.choice(["list", "tuple"]), "c": [{"k": "text", "s": "x"}, {"k": "none"}, {"k": "num", "v": 1}]}
    if k == "bad":
        return {"k": "bad", "t": rng.choice(["object", "dict", "bytes", "set", "function", "type", "tagfunction", "boundmethod", "strclass", "fraction", "module", "generator", "answers_everything", "no_rich_repr"])}
    if k == "badlist":
        # valid items followed by an invalid one: nothing may be appended
        return {"k": "list", "t": rng.choice(["list", "tuple"]), "c": [{"k": "text", "s": "v1"}, gen.TAG("i", ws=False), {"k": "bad", "t": "object"}, {"k": "text", "s": "v2"}]}
    if k == "meta":
        return {"k": "meta"}
    if k == "strrepr":
        return {"k": "strrepr", "s": "<em>sr</em>"}
    if k.startswith("inst_"):
        return {"k": "inst", "has": {"inst_repr": "repr", "inst_tagify": "tagify", "inst_none": None}[k]}
    if k in ("symrepr", "symtf"):
        return {"k": k, "truth": rng.choice([True, False, None])}
    return {"k": k}


# any element can be a block: inline, block, custom, void and raw-text names alike
BLOCK_TAGS = ["div", "span", "ul", "x-t", "div", "span", "p", "br", "hr", "img", "input", "meta", "link", "source", "script", "style", "svg", "head", "body"]


def rand_stmts(rng, depth, budget):
    out = []
    n = rng.randint(0, 4)
    for _ in range(n):
        if budget[0] <= 0:
            break
        budget[0] -= 1
        r = rng.random()
        if r < 0.5:
            out.append({"s": "display", "v": rand_value(rng)})
            if rng.random() < 0.2 and out[-1]["v"]["k"] in ("dep", "meta", "text", "tag", "html", "obj", "tf", "num"):
                # the same value again: an equal one, or the very same object (normal child rules keep both)
                import copy as _c
                again = _c.deepcopy(out[-1]["v"])
                if rng.random() < 0.5:
                    key = "again%d" % rng.randrange(10**9)
                    out[-1]["v"]["share"] = key
                    again["share"] = key
                out.append({"s": "display", "v": again})
        elif r < 0.72 and depth > 0:
            out.append({"s": "block", "tag": rng.choice(BLOCK_TAGS), "body": rand_stmts(rng, depth - 1, budget)})
        elif r < 0.8:
            out.append({"s": "raise"})
        elif r < 0.84:
            out.append({"s": "reenter", "which": rng.randint(0, 3)})
        elif r < 0.87:
            out.append({"s": "api", "m": rng.choice(["insert0", "append", "extend", "reassign", "clear_attrs", "iadd"])})
        elif r < 0.9:
            # user code replaces the hook inside the block and leaves (normally or by an exception) without restoring it
            out.append({"s": "sethook", "then_raise": rng.random() < 0.6})
            break
        elif depth > 0:
            out.append({"s": "try", "body": rand_stmts(rng, depth - 1, budget)})
        else:
            out.append({"s": "display", "v": rand_value(rng)})
    return out


def rand_program(rng, max_stmts=10):
    budget = [max_stmts]
    prog = []
    for _ in range(rng.randint(1, 3)):
        budget[0] -= 1
        prog.append({"s": "block", "tag": rng.choice(["div", "section", "div", "section", "br", "img", "area", "base", "col", "embed", "param", "track", "wbr", "command", "keygen"]), "body": rand_stmts(rng, rng.choice([1, 2, 3]), budget)})
        if rng.random() < 0.3:
            prog.append({"s": "display", "v": rand_value(rng)})
    return prog


def count_stmts(stmts):
    n = 0
    for st in stmts:
        n += 1
        if st["s"] in ("block", "try"):
            n += count_stmts(st["body"])
    return n


def depth_of(stmts):
    d = 0
    for st in stmts:
        if st["s"] == "block":
            d = max(d, 1 + depth_of(st["body"]))
        elif st["s"] == "try":
            d = max(d, depth_of(st["body"]))
    return d


# ------------------------------------------------------------------ interpreter (live + model side by side)
class Run:
    def __init__(self, ctx, inject_at, recorder):
        self.ctx = ctx
        self.inject_at = inject_at
        self.pos = -1
        self.active = []          # live tags of active blocks (innermost last)
        self.model = {}           # id(tag) -> expected children (live objects / strings / ("HTML", s))
        self.tags = []            # all block tags in creation order
        self.top_expected = []    # what the recorder must have received, in order
        self.recorder = recorder
        self.problems = []
        self.hijacked_by = None   # the block whose body replaced sys.displayhook; the rest of that body is skipped

    def sink(self):
        return self.model[id(self.active[-1])] if self.active else self.top_expected

    def tick(self):
        self.pos += 1
        if self.pos == self.inject_at:
            self.ctx.count("faults_injected")
            raise RAISED_KINDS[self.pos % len(RAISED_KINDS)]("injected at %d" % self.pos)

    def display(self, vr):
        if vr["k"] == "wrapprev":
            # a new element that contains the tag of a block that was finished earlier (possibly one that equals the active block's tag)
            done = [t for t in self.tags if all(t is not a for a in self.active)]
            v = ht.Tag("section", done[-1], "w") if done else ht.Tag("section", "w")
        elif vr["k"] == "proxy":
            v = LazyProxy()
        elif vr["k"] in ("symrepr", "symtf"):
            v = (SymbolicRepr if vr["k"] == "symrepr" else SymbolicTF)(vr.get("truth", True))
        elif vr["k"] == "tuplecomp":
            v = TupleComponent(("first item", ht.Tag("i", "second")))
        else:
            v = ReprRaises() if vr["k"] == "reprraise" else ... if vr["k"] == "ellipsis" else StrRepr("plain text of the str") if vr["k"] == "strrepr" else gen.build(vr)
        # ---- model
        expect_exc = None
        add = []
        if self.active:
            # the expectation is derived from the KIND of value displayed (the recipe), not from the live object
            k = vr["k"]
            if k in ("none", "ellipsis"):
                pass
            elif k == "reprraise":
                expect_exc = ValueError
            elif k in ("obj", "html", "strrepr"):
                add = [("HTML", vr["s"])]  # kept as HTML (by value: an HTML() is itself self-rendering and is re-wrapped)
            elif k == "inst":
                # instances of ONE class; what each is depends on the methods the instance itself carries
                if vr["has"] == "repr":
                    add = [("HTML", "<i>dyn</i>")]
                elif vr["has"] == "tagify":
                    add = [v]
                else:
                    expect_exc = TypeError
            elif k in ("bad", "proxy"):
                expect_exc = TypeError
            elif k == "symrepr":
                add = [("HTML", "<code>column</code>")]
            elif k == "symtf":
                add = [v]
            elif k == "tuplecomp":
                add = list(v)
            else:  # text, num, tag, list/tuple/taglist, html, dep, meta, tf, tfobj: normal child rules
                try:
                    add = F.flatten([v])
                except F.Unsupported:
                    expect_exc = TypeError
        else:
            # top level: the recorder is the hook, it receives the value as is
            add = [v]
        # ---- live
        try:
            sys.displayhook(v)
        except Boom:
            # only the raising recorder does this, and only at top level
            self.sink().extend(add)
            raise
        except Exception as e:
            if expect_exc is None or not isinstance(e, expect_exc):
                self.problems.append(("display-raised-unexpectedly", "displaying %r raised %r" % (vr, e)))
            raise
        if expect_exc is not None:
            self.problems.append(("invalid-displayed-value-accepted", "displaying %r did not raise %s" % (vr, expect_exc.__name__)))
        self.sink().extend(add)

    def block(self, st):
        tag = ht.Tag(st["tag"])
        self.tags.append(tag)
        self.model[id(tag)] = []
        hook_at_entry = sys.displayhook
        entered = False
        raised_inside = [False]
        try:
            with tag:
                entered = True
                self.active.append(tag)
                try:
                    try:
                        self.stmts(st["body"])
                    except BaseException:
                        raised_inside[0] = True
                        raise
                finally:
                    self.active.pop()
                    if self.hijacked_by is tag:
                        self.hijacked_by = None
                    # on exit (normal or exceptional) the tag is handed to the enclosing hook
                    self.sink().append(tag)
            if raised_inside[0]:
                # control only gets here if __exit__ reported the exception as handled
                self.problems.append(("exception-swallowed-by-block", "an exception raised inside a with-block did not propagate out of it"))
        except BaseException as e:
            if not entered:
                # a fresh tag (never entered before) of any name can open a block
                self.problems.append(("block-entry-refused", "entering a fresh <%s> tag raised %r" % (st["tag"], e)))
            raise
        finally:
            if entered and sys.displayhook is not hook_at_entry:
                self.problems.append(("hook-not-restored", "after the with-block sys.displayhook is not the hook installed when it was entered"))

    def reenter(self, st):
        if not self.active:
            return
        tag = self.active[st["which"] % len(self.active)]
        before = sys.displayhook
        try:
            with tag:
                self.problems.append(("reentry-accepted", "entering an active tag did not raise"))
        except RuntimeError:
            self.ctx.count("reentries_refused")
            if sys.displayhook is not before:
                self.problems.append(("hook-changed-by-refused-entry", "hook chain changed by a refused re-entry"))
            raise

    def stmts(self, body):
        for st in body:
            if self.hijacked_by is not None:
                return
            self.tick()
            k = st["s"]
            if k == "display":
                self.display(st["v"])
            elif k == "block":
                self.block(st)
            elif k == "raise":
                raise RAISED_KINDS[(self.pos * 3 + 1) % len(RAISED_KINDS)]("program raise")
            elif k == "reenter":
                self.reenter(st)
            elif k == "api":
                if self.active:
                    t = self.active[-1]
                    mdl = self.model[id(t)]
                    m = st["m"]
                    self.ctx.count("api_calls_inside_block")
                    if m == "insert0":
                        x = ht.Tag("i", "ins")
                        t.insert(0, x)
                        mdl.insert(0, x)
                    elif m == "append":
                        x = ht.Tag("i", "app")
                        t.append(x, "s")
                        mdl.extend([x, "s"])
                    elif m == "extend":
                        t.extend(["e1", "e2"])
                        mdl.extend(["e1", "e2"])
                    elif m == "reassign":
                        t.children = ht.TagList(*list(t.children))
                    elif m == "iadd":
                        t.children += ["ia"]
                        mdl.append("ia")
                    else:
                        t.attrs["data-in-block"] = "1"
                        t.attrs.clear()
            elif k == "sethook":
                if self.active:
                    sys.displayhook = Recorder()  # a foreign hook; the block's exit must still restore the entry hook
                    self.ctx.count("foreign_hooks_installed")
                    self.hijacked_by = self.active[-1]
                    if st["then_raise"]:
                        raise Boom("after replacing the hook")
                    return
            elif k == "try":
                try:
                    self.stmts(st["body"])
                except LEAVES_BLOCKS + (TypeError, ValueError, RuntimeError):
                    self.ctx.count("exceptions_caught_by_try")


def same_children(live, model):
    if len(live) != len(model):
        return False
    for a, b in zip(live, model):
        if isinstance(b, tuple) and b and b[0] == "HTML":
            if not isinstance(a, ht.HTML) or a.data != b[1]:
                return False
        elif isinstance(b, str):
            if type(a) is not str or a != b:
                return False
        elif a is not b:
            return False
    return True


def run_case(ctx, prog, inject_at, recorder_raise_on=None):
    wit = {"program": prog, "inject_at": inject_at, "recorder_raises_on": recorder_raise_on}
    mon = Monitor(ctx)
    real = sys.displayhook
    rec = Recorder(recorder_raise_on, returns_value=(inject_at or 0) % 2 == 1 or recorder_raise_on is None and bool(inject_at is not None and inject_at % 3 == 0))
    gen.reset_shared()
    run = Run(ctx, inject_at, rec)
    mon.install()
    sys.displayhook = rec
    outcome = "completed"
    try:
        try:
            run.stmts(prog)
        except LEAVES_BLOCKS + (TypeError, ValueError, RuntimeError) as e:
            outcome = type(e).__name__
        hook_at_quiescence = sys.displayhook
    finally:
        sys.displayhook = real
        contracts.unpatch_all()
    ctx.count("monitor.programs")
    ctx.state("outcomes", outcome)
    for key, what in mon.problems + run.problems:
        ctx.violation(key, what, dict(wit, events=mon.events[-12:]))
        return False
    if mon.stack:
        ctx.violation("block-never-exited", "shadow stack not empty at quiescence", wit)
        return False
    if hook_at_quiescence is not rec:
        ctx.violation("hook-not-restored", "at quiescence sys.displayhook is not the outermost hook", wit)
        return False
    # deliveries to the outermost hook: exactly the expected values, in order
    if len(rec.delivered) != len(run.top_expected) or any(a is not b for a, b in zip(rec.delivered, run.top_expected)):
        ctx.violation(_delivery_key(rec.delivered, run.top_expected), "outermost hook received %d values, expected %d (identity and order)" % (len(rec.delivered), len(run.top_expected)),
                      dict(wit, delivered=[repr(x)[:40] for x in rec.delivered], expected=[repr(x)[:40] for x in run.top_expected]))
        return False
    for t in run.tags:
        ctx.count("monitor.children_checked")
        if not same_children(list(t.children), run.model[id(t)]):
            ctx.violation("block-children-differ", "children of a <%s> block differ from the displayed values in order" % t.name,
                          dict(wit, children=[repr(x)[:40] for x in t.children], expected=[repr(x)[:40] for x in run.model[id(t)]]))
            return False
    return True


def _delivery_key(got, want):
    gi, wi = [id(x) for x in got], [id(x) for x in want]
    if sorted(gi) == sorted(wi):
        return "delivery-order"
    if len(gi) > len(wi):
        return "delivered-more-than-once-or-extra"
    return "delivery-missing"


class _BlocksInsideTagify:
    """A component whose tagify() builds its result with `with` blocks (the Shiny Express style), nested `depth` deep."""

    def __init__(self, depth):
        self.depth = depth
        self.made = []

    def tagify(self):
        def block(d):
            t = ht.Tag("x-level%d" % d)
            with t:
                sys.displayhook("before%d" % d)
                if d > 1:
                    block(d - 1)
                sys.displayhook("after%d" % d)
            return t

        t = block(self.depth)
        self.made.append(t)
        return t


def run_blocks_inside_tagify(ctx, rng):
    """`with` blocks that run while a tree is being expanded / rendered obey the same rules: every finished block's tag is handed,
    once, to the hook that was installed when it was entered (the enclosing block's, or whatever hook was active), and the hook
    is restored."""
    depth = rng.choice([1, 2, 3])
    comp = _BlocksInsideTagify(depth)
    via = rng.choice(["Tag.render", "TagList.tagify", "HTMLDocument.render", "str", "direct"])
    rec = Recorder()
    real = sys.displayhook
    sys.displayhook = rec
    try:
        if via == "Tag.render":
            out = ht.div("lead", comp).render()["html"]
        elif via == "TagList.tagify":
            out = ht.TagList(comp, "tail").tagify().get_html_string()
        elif via == "HTMLDocument.render":
            out = ht.HTMLDocument(ht.div(comp)).render()["html"]
        elif via == "str":
            out = str(ht.span(comp))
        else:
            out = comp.tagify().get_html_string()
        hook_after = sys.displayhook
    finally:
        sys.displayhook = real
    ctx.count("monitor.blocks_inside_tagify")
    wit = {"scenario": "with blocks inside tagify()", "depth": depth, "via": via, "output": out[:600]}
    if hook_after is not rec:
        ctx.violation("hook-not-restored", "after an expansion that used with-blocks sys.displayhook is not the hook that was installed before", wit)
        return False
    for d in range(1, depth + 1):
        if out.count("<x-level%d>" % d) != 1 or ("before%d" % d) not in out or ("after%d" % d) not in out:
            ctx.violation("block-children-differ", "the tag of a block that ran inside tagify() (level %d of %d) is missing from the expansion or incomplete" % (d, depth), wit)
            return False
    outer = comp.made[-1]
    if len(comp.made) != 1 or [x for x in rec.delivered if x is outer] != [outer] or any(isinstance(x, ht.Tag) and x is not outer for x in rec.delivered):
        ctx.violation("delivery-missing", "the outermost block's tag was not handed exactly once to the hook that was active when tagify() ran (inner blocks' tags go to their parents)",
                      dict(wit, delivered=[repr(x)[:40] for x in rec.delivered]))
        return False
    return True


def run_default_hook_case(ctx, n_blocks, rng):
    """Top-level blocks under the interpreter's own sys.__displayhook__: each tag must be handed to it (echoed, builtins._)."""
    import builtins
    import contextlib
    import io

    real = sys.displayhook
    buf = io.StringIO()
    tags = []
    had = hasattr(builtins, "_")
    old_ = getattr(builtins, "_", None)
    ctx.count("monitor.default_hook_programs")
    try:
        sys.displayhook = sys.__displayhook__
        with contextlib.redirect_stdout(buf):
            for i in range(n_blocks):
                t = ht.Tag(rng.choice(["div", "span", "p"]), id="top%d" % i)
                tags.append(t)
                with t:
                    sys.displayhook("inner%d" % i)
                    if rng.random() < 0.5:
                        inner = ht.Tag("b")
                        with inner:
                            sys.displayhook("deep")
                if getattr(builtins, "_", None) is not t:
                    ctx.violation("delivery-missing", "after a top-level block under sys.__displayhook__ builtins._ is not the tag", {"blocks": n_blocks, "at": i})
                    return False
                if sys.displayhook is not sys.__displayhook__:
                    ctx.violation("hook-not-restored", "sys.__displayhook__ not restored after a top-level block", {"blocks": n_blocks})
                    return False
    finally:
        sys.displayhook = real
        if had:
            builtins._ = old_
        elif hasattr(builtins, "_"):
            del builtins._
    out = buf.getvalue()
    pos = 0
    for t in tags:
        j = out.find(repr(t), pos)
        if j < 0:
            ctx.violation("delivery-missing", "a top-level tag was not echoed by sys.__displayhook__", {"blocks": n_blocks, "echo": out[:400]})
            return False
        pos = j + 1
    return True


def run_copy_case(ctx, rng):
    """A block on a tag, then a block on a copy of that tag (copy.copy or tagify): either the copy's block is refused
    (hook intact, nothing collected) or its values go to the copy and only to the copy."""
    import copy as _c

    real = sys.displayhook
    rec = Recorder()
    sys.displayhook = rec
    ctx.count("monitor.copy_programs")
    try:
        t = ht.Tag(rng.choice(["div", "span"]), "pre-existing")
        with t:
            sys.displayhook("a")
        second = _c.copy(t) if rng.random() < 0.5 else t.tagify()
        before_t = list(t.children)
        before_2 = list(second.children)
        try:
            with second:
                sys.displayhook("b")
                if rng.random() < 0.5:
                    sys.displayhook(ht.Tag("i", "c"))
            refused = False
        except RuntimeError:
            refused = True
        if sys.displayhook is not rec:
            ctx.violation("hook-not-restored", "after a block on a copy of a finished tag sys.displayhook is not the outer hook", {"refused": refused})
            return False
        if list(t.children) != before_t:
            ctx.violation("displayed-value-went-to-another-tag", "values displayed in the block of a COPY were appended to the original tag", {"refused": refused})
            return False
        if refused:
            if list(second.children) != before_2:
                ctx.violation("block-children-differ", "a refused block still collected values", {})
                return False
        else:
            got = [str(x) for x in second.children[len(before_2):]]
            if not got or got[0] != "b":
                ctx.violation("block-children-differ", "values displayed in the copy's block are not its children: %r" % got, {})
                return False
            if rec.delivered[-1] is not second:
                ctx.violation("delivery-missing", "the copy was not handed to the enclosing hook", {})
                return False
    finally:
        sys.displayhook = real
    return True


def replay(ctx, w):
    if "program" not in w:
        return
    run_case(ctx, w["program"], w["inject_at"], w.get("recorder_raises_on"))


def run(ctx):
    rng = ctx.rng
    ctx.require("monitor.exit", 1000)
    ctx.require("monitor.programs", 500)
    ctx.require("faults_injected", 300)
    ctx.require("reentries_refused", 10)
    fixed = [
        [{"s": "block", "tag": "div", "body": [{"s": "display", "v": {"k": "text", "s": "a"}},
                                              {"s": "block", "tag": "span", "body": [{"s": "display", "v": {"k": "obj", "s": "<u>o</u>"}}, {"s": "raise"}]},
                                              {"s": "display", "v": {"k": "text", "s": "after"}}]}],
        [{"s": "block", "tag": "div", "body": [{"s": "reenter", "which": 0}]}, {"s": "display", "v": {"k": "num", "v": 3}}],
        [{"s": "block", "tag": "div", "body": [{"s": "try", "body": [{"s": "display", "v": {"k": "bad", "t": "object"}}]},
                                              {"s": "block", "tag": "ul", "body": [{"s": "try", "body": [{"s": "reenter", "which": 0}]}, {"s": "display", "v": {"k": "none"}}]}]}],
    ]
    fixed += [
        # two equal, empty blocks one after the other under one hook; the second displays an element that contains the first
        [{"s": "block", "tag": "div", "body": []},
         {"s": "block", "tag": "div", "body": [{"s": "display", "v": {"k": "wrapprev"}}, {"s": "display", "v": {"k": "text", "s": "after"}}]}],
        [{"s": "block", "tag": "section", "body": [{"s": "block", "tag": "span", "body": []}, {"s": "display", "v": {"k": "text", "s": "between"}},
                                                  {"s": "block", "tag": "span", "body": [{"s": "display", "v": {"k": "wrapprev"}}, {"s": "block", "tag": "span", "body": []}]}]}],
        [{"s": "block", "tag": "div", "body": [{"s": "try", "body": [{"s": "display", "v": {"k": "proxy"}}]}, {"s": "display", "v": {"k": "text", "s": "after"}}]}],
    ]
    progs = list(fixed)
    n = ctx.budget(2500, 2000000)
    skel = 0
    for i in range(len(fixed) + n):
        if i < len(fixed):
            if not ctx.mine(i):
                continue
            prog = fixed[i]
        else:
            prog = rand_program(rng, max_stmts=rng.choice([4, 6, 8, 10]))
        N = count_stmts(prog)
        skel += 1
        for k in [None] + list(range(N)):
            rr = None
            if rng.random() < 0.15:
                rr = rng.randint(1, 3)
            ctx.guard(run_case, ctx, prog, k, rr, witness={"program": prog, "inject_at": k, "recorder_raises_on": rr})
            ctx.case((prog, k, rr), nontrivial=depth_of(prog) >= 2 and N >= 3)
        ctx.state("skeleton_shapes", (min(depth_of(prog), 4), min(N, 10)))
    # sizes ordinary programs never reach: 90 blocks inside one another, a thousand values displayed in one block; with a fault
    # injected at a few positions (every position would be quadratic)
    if ctx.shard == 0:
        deep = [{"s": "display", "v": {"k": "text", "s": "bottom"}}, {"s": "raise"}]
        for d_ in range(135):
            deep = [{"s": "display", "v": {"k": "num", "v": d_}}, {"s": "block", "tag": BLOCK_TAGS[d_ % len(BLOCK_TAGS)], "body": deep}, {"s": "display", "v": {"k": "text", "s": "after%d" % d_}}]
        deep_ok = [{"s": "block", "tag": "div", "body": [x for x in deep]}]
        many = [{"s": "block", "tag": "ul", "body": [{"s": "display", "v": ({"k": "text", "s": "v%d" % k} if k % 3 else gen.TAG("li", {"k": "text", "s": "k"}, ws=False) if k % 2 else {"k": "dep", "name": "d", "version": "1.0"})}
                                                     for k in range(1200)]}]
        for prog in (deep_ok, many):
            N = count_stmts(prog)
            for k in (None, 0, 1, N // 2, N - 2, N - 1, 95, 181, 182):
                ctx.guard(run_case, ctx, prog, k, None, witness={"program": "large deterministic program", "inject_at": k})
            ctx.case(("large", N), nontrivial=True)
            ctx.count("very_large_programs")
    for _ in range(ctx.budget(40, 4000)):
        ctx.guard(run_default_hook_case, ctx, rng.randint(1, 3), rng, witness={"what": "default hook"})
        ctx.guard(run_copy_case, ctx, rng, witness={"what": "block on a copy of a finished tag"})
        ctx.guard(run_blocks_inside_tagify, ctx, rng, witness={"what": "with blocks inside tagify()"})
    ctx.count("skeletons", skel)
    ctx.exhaustive["every_statement_position_of_every_generated_skeleton"] = True
    ctx.sample({"program": fixed[0], "inject_at": 2})
