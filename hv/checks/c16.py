"""C16 - class/style helpers and css() act as token-set and declaration algebra."""

from __future__ import annotations

import itertools

from ..loader import ht
from .. import gen

ID = "C16"
LEVEL = "exploration"
RULE = ("histories of add_class(append/prepend) / remove_class / add_style over tokens that are substrings of one another "
        "(foo, foobar, foo-x, x-foo, fo, o), repeated, surrounded by whitespace or empty, from initial class values with odd "
        "whitespace (str and HTML); has_class probed for every token after every step; ALL histories of length<=4 over 4 tokens "
        "x {append, prepend, remove} enumerated; css() keyword sets over snake/camel/mixed names and str/int/float/None values. "
        "non-trivial = history has >=2 steps and both an add and a remove of tokens sharing a substring; distinct by digest")
ASSUMPTIONS = ["tokens are whitespace-free after stripping (the statement's scope); css() values are scalars"]
SHARDS = {"quick": 1, "thorough": 16}

TOKENS = ["foo", "foobar", "foo-x", "x-foo", "fo", "o", "bar", "Foo", "a&b",
          # characters that mean something to glob / regular-expression matching are ordinary token characters
          "fo?", "f*", "[fo]o", "foo.", "fo.", "(foo)", "foo|bar", "^foo", "foo$", "f\\oo", "w-[100px]", "fo+", "{foo}"]
DECOR = [lambda t: t, lambda t: " " + t, lambda t: t + " ", lambda t: "\t" + t + "\n", lambda t: "  " + t + "  "]
INITIAL = [None, "", " ", "foo", "foo bar", "  foo   foobar ", "foo\tfo\no", "foo foo", "x-foo foo-x foo", "o fo foo foobar"]


def snap(tag):
    return [(k, type(v).__name__, str(v)) for k, v in tag.attrs.items()]


def tokens_of(tag):
    v = tag.attrs.get("class")
    return None if v is None else str(v).split()


def step(ctx, tag, model, op, wit):
    """model: {"tokens": list|None}; returns False on violation."""
    o = op["op"]
    if o in ("add", "remove"):
        c = op["c"]
        # known mechanism F7: on an HTML()-typed class value a plain token is stored in its escaped form, so a
        # token (or its surrounding whitespace) containing an escapable character no longer matches itself
        if o == "add" and isinstance(tag.attrs.get("class"), ht.HTML) and set(c) & set("&<>\"'\r\n"):
            model["polluted"] = True
            ctx_violation = ctx.violation

            def _v(key, what, witness, _cv=ctx_violation):
                _cv("class-token-escaped-in-html-typed-value", what, witness)
            ctx = _Proxy(ctx, _v)
        elif model.get("polluted"):
            ctx = _Proxy(ctx, lambda key, what, witness, _cv=ctx.violation: _cv("class-token-escaped-in-html-typed-value", what, witness))
        before = list(model["tokens"] or [])
        had_attr = model["tokens"] is not None
        if o == "add":
            r = tag.add_class(c, prepend=op["prepend"])
            new = c.split()
            model["tokens"] = (new + before) if op["prepend"] else (before + new)
        else:
            r = tag.remove_class(c)
            t = c.strip()
            after = [x for x in before if x != t] if c else before
            model["tokens"] = after if had_attr else None
        ctx.count("oracle.token_model")
        if r is not tag:
            ctx.violation("helper-does-not-return-tag", "%s_class returned %r" % (o, r), wit)
            return False
        got = tokens_of(tag)
        if (got or []) != (model["tokens"] or []):
            ctx.violation("class-tokens-differ", "after %s_class(%r): tokens %r, model %r" % (o, c, got, model["tokens"]), wit)
            return False
        if o == "add" and c.strip() and " " not in c.strip():
            if not tag.has_class(c.strip()):
                ctx.violation("has_class-false-after-add", "has_class(%r) is False right after add_class(%r)" % (c.strip(), c), wit)
                return False
            pos = got.index(c.strip()) if op["prepend"] else len(got) - 1 - got[::-1].index(c.strip())
            if (op["prepend"] and pos != 0) or (not op["prepend"] and pos != len(got) - 1):
                ctx.violation("add_class-position", "add_class(%r, prepend=%s) did not place the token at the %s" % (c, op["prepend"], "front" if op["prepend"] else "end"), wit)
                return False
        if o == "remove" and c and c.strip() in before and not model["tokens"]:
            if "class" in tag.attrs:
                ctx.violation("class-attr-not-dropped", "class attribute still present (%r) after the last token was removed" % (tag.attrs["class"],), wit)
                return False
            model["tokens"] = None
        if o == "remove" and got is None:
            model["tokens"] = None
        # membership for every probe token
        toks = model["tokens"] or []
        for t in TOKENS + [" foo", "foo ", ""]:
            ctx.count("oracle.has_class")
            if tag.has_class(t) != (t in toks):
                ctx.violation("has_class-not-token-membership", "has_class(%r) is %s with tokens %r" % (t, tag.has_class(t), toks), wit)
                return False
        return True
    if o == "style":
        s = op["s"]
        before = snap(tag)
        old = tag.attrs.get("style")
        ctx.count("oracle.add_style")
        if not s.endswith(";"):
            try:
                tag.add_style(ht.HTML(s) if op.get("html") else s, prepend=op["prepend"])
            except ValueError:
                if snap(tag) != before:
                    ctx.violation("add_style-mutates-before-rejecting", "tag changed although add_style(%r) raised" % s, wit)
                    return False
                ctx.count("oracle.add_style_rejections")
                return True
            except Exception as e:
                ctx.violation("add_style-wrong-exception", "add_style(%r) raised %r" % (s, e), wit)
                return False
            ctx.violation("add_style-accepts-missing-semicolon", "add_style(%r) was accepted" % s, wit)
            return False
        r = tag.add_style(ht.HTML(s) if op.get("html") else s, prepend=op["prepend"])
        if r is not tag:
            ctx.violation("helper-does-not-return-tag", "add_style returned %r" % (r,), wit)
            return False
        new = tag.attrs.get("style")
        mixed = old is not None and (isinstance(old, ht.HTML) != bool(op.get("html")))
        if old is None:
            want = s
        elif op["prepend"]:
            want = s + " " + str(old)
        else:
            want = str(old) + " " + s
        if not mixed and str(new) != want:
            ctx.violation("add_style-value", "style is %r, expected %r" % (str(new), want), wit)
            return False
        if mixed and not isinstance(new, ht.HTML):
            ctx.violation("add_style-value", "style lost its HTML mark", wit)
            return False
        # everything else untouched
        if [x for x in snap(tag) if x[0] != "style"] != [x for x in before if x[0] != "style"]:
            ctx.violation("add_style-disturbs-other-attrs", "other attributes changed", wit)
            return False
        return True
    raise ValueError(o)


class _Proxy:
    """Context proxy that re-keys violations (used to classify the known mechanism F7)."""

    def __init__(self, ctx, violation):
        self._ctx = ctx
        self.violation = violation

    def __getattr__(self, name):
        return getattr(self._ctx, name)


def run_history(ctx, h):
    wit = {"history": h}
    import copy as _copy

    kw = {}
    shared_value = None
    if h["init"] is not None:
        shared_value = ht.HTML(h["init"]) if h.get("init_html") else h["init"]
        kw["class_"] = shared_value
    if h.get("style") is not None:
        kw["style"] = h["style"]
    bare = bool(h.get("bare")) and not kw
    # (a bare element has no attribute at all when the copies below are made)
    tag = ht.div("c") if bare else ht.div("c", id="keep", **kw)
    # other holders of the same value object: another element built with it, and a copy of the element made before the helpers run
    other = ht.span(**kw)
    twin = _copy.copy(tag) if not (bare and h.get("bare") == "tagify") else tag.tagify()
    held = (str(other.attrs.get("class")), str(other.attrs.get("style")), str(twin.attrs.get("class")), str(twin.attrs.get("style")))
    model = {"tokens": None if h["init"] is None else h["init"].split()}
    for op in h["ops"]:
        if not step(ctx, tag, model, op, wit):
            return False
        if not bare and tag.attrs.get("id") != "keep":
            ctx.violation("helper-disturbs-other-attrs", "id attribute changed", wit)
            return False
        ctx.count("oracle.other_holders")
        now = (str(other.attrs.get("class")), str(other.attrs.get("style")), str(twin.attrs.get("class")), str(twin.attrs.get("style")))
        if now != held or (shared_value is not None and str(shared_value) != h["init"]):
            ctx.violation("helper-disturbs-other-elements", "a class/style helper on one element changed the value held by another element, by a copy made earlier, or the caller's own value object",
                          dict(wit, op=op))
            return False
    return True


# ------------------------------------------------------------------ css()
def css_name(k):
    out = ""
    for ch in k:
        if "A" <= ch <= "Z":
            out += "-" + ch.lower()
        elif ch == "_":
            out += "-"
        else:
            out += ch.lower()
    return out


CSS_KEYS = ["color", "font_size", "fontSize", "backgroundColor", "background_color", "MozBoxSizing", "WebkitTransition", "x", "A",
            "aB_cD", "a__b", "border_top_leftRadius", "zIndex", "margin_", "_webkit_x", "line_height", "é_x",
            # custom properties and vendor prefixes (only reachable with **): converted like every other name
            "--mainBg", "--brand_color", "--x", "-webkit-Box_x", "__x", "--", "a-B", "--Ü_x",
            # names that look like vendor prefixes in DOM spelling: no prefix rule, just the conversion
            "msTransition", "ms_flex_align", "ms-x", "webkitBoxShadow", "mozAppearance", "oTransition", "khtmlUserSelect", "ms", "msx", "MsFoo", "cssFloat", "float_"]
CSS_VALS = ["red", "12px", 0, 3, 1.5, -2, None, None, "", "a b", "url(x;y)", "10%", 1e21, "red;", "0 ;", "';", "1px;;", " lead", "trail ", "a:b", "x\ny", True, False,
            float("nan"), float("inf"), -0.0, 1e-320, 2 ** 63, 0.1 + 0.2, 1 / 3]


def check_css(ctx, keys, vals, collapse):
    kw = dict(zip(keys, vals))
    wit = {"keys": keys, "vals": vals, "collapse": collapse}
    ctx.count("oracle.css")
    try:
        got = ht.css(collapse_=collapse, **kw) if collapse is not None else ht.css(**kw)
    except Exception as e:
        ctx.violation("css-raises", "css raised %r" % e, wit)
        return False
    sep = "" if collapse is None else collapse
    want = "".join(css_name(k) + ":" + str(v) + ";" + sep for k, v in kw.items() if v is not None)
    want = None if want == "" else want
    if got != want:
        ctx.violation("css-output", "css(...) = %r, model %r" % (got, want), wit)
        return False
    if got is not None and collapse in (None, ""):
        t = ht.div()
        try:
            r = t.add_style(got)
        except Exception as e:
            ctx.violation("css-output-rejected-by-add_style", "add_style(css(...)) raised %r" % e, wit)
            return False
        if r is not t or t.attrs.get("style") != got:
            ctx.violation("css-output-rejected-by-add_style", "add_style(css(...)) did not store the declarations", wit)
            return False
    return True


def replay(ctx, w):
    if "history" in w:
        run_history(ctx, w["history"])
    else:
        check_css(ctx, w["keys"], w["vals"], w["collapse"])


def nontrivial(h):
    adds = [op["c"].strip() for op in h["ops"] if op["op"] == "add"]
    rems = [op["c"].strip() for op in h["ops"] if op["op"] == "remove"]
    share = any(a != r and (a in r or r in a) and a and r for a in adds + (h["init"] or "").split() for r in rems)
    return len(h["ops"]) >= 2 and bool(adds) and share


def run(ctx):
    rng = ctx.rng
    ctx.require("oracle.token_model", 2000)
    ctx.require("oracle.has_class", 2000)
    ctx.require("oracle.add_style", 200)
    ctx.require("oracle.add_style_rejections", 20)
    ctx.require("oracle.css", 300)
    # 1. exhaustive short histories
    toks4 = ["foo", "foobar", "fo", "x-foo"]
    steps = [{"op": "add", "c": t, "prepend": False} for t in toks4] + [{"op": "add", "c": t, "prepend": True} for t in toks4] + \
            [{"op": "remove", "c": t} for t in toks4]
    idx = 0
    maxL = 5 if ctx.thorough else 4
    for L in range(1, maxL + 1):
        for combo in itertools.product(range(len(steps)), repeat=L):
            idx += 1
            if not ctx.mine(idx):
                continue
            h = {"init": None, "ops": [steps[i] for i in combo]}
            ctx.guard(run_history, ctx, h, witness={"history": h})
            ctx.case(h, nontrivial=nontrivial(h))
    ctx.exhaustive["histories_len_le_%d_over_4_tokens_x_3_ops" % maxL] = True
    ex = {"init": "  foo   foobar ", "ops": [{"op": "remove", "c": "foo"}, {"op": "add", "c": " fo ", "prepend": True}]}
    t = ht.div(class_=ex["init"])
    t.remove_class("foo").add_class(" fo ", prepend=True)
    ctx.sample({"history": ex, "class_after": t.attrs.get("class")})
    # 1b. sizes ordinary elements never reach: thousands of tokens, very long tokens, long style values, many css() arguments
    if ctx.shard == 0:
        many = " ".join("t%d" % (k % 700) for k in range(2400))
        long_tok = "tok-" + "x" * 70000
        for h in ({"init": many, "ops": [{"op": "remove", "c": "t5"}, {"op": "add", "c": "t5", "prepend": True}, {"op": "remove", "c": "t699"}, {"op": "add", "c": long_tok, "prepend": False},
                                         {"op": "remove", "c": "t"}, {"op": "remove", "c": long_tok[:-1]}, {"op": "remove", "c": long_tok}]},
                  {"init": long_tok + " foo " + long_tok + "y", "style": "k:v; " * 30000, "ops": [{"op": "remove", "c": long_tok}, {"op": "style", "s": "a:b;" * 20000, "prepend": True, "html": False},
                                                                                              {"op": "style", "s": "no-semicolon" * 9000, "prepend": False, "html": False}, {"op": "add", "c": "foo", "prepend": False}]}):
            ctx.guard(run_history, ctx, h, witness={"history": {"init": h["init"][:200], "ops": str(h["ops"])[:400]}})
            ctx.case(("big", len(h["init"])), nontrivial=True)
            ctx.count("very_large_class_values")
        keys_ = ["k%d_%s" % (k, "aB" if k % 2 else "c_d") for k in range(400)]
        check_css(ctx, keys_, [("v%d" % k if k % 7 else None) for k in range(400)], None)
        check_css(ctx, keys_, ["x" * 3000 if k % 50 == 0 else k for k in range(400)], " ")
    # 2. random histories
    for _ in range(ctx.budget(4000, 4000000)):
        ops = []
        for _ in range(rng.choice([1, 2, 3, 5, 8, 15, 25])):
            r = rng.random()
            if r < 0.4:
                ops.append({"op": "add", "c": rng.choice(DECOR)(rng.choice(TOKENS + [""])), "prepend": rng.random() < 0.5})
            elif r < 0.8:
                ops.append({"op": "remove", "c": rng.choice(DECOR)(rng.choice(TOKENS + ["", "zzz"]))})
            else:
                s = rng.choice(["color:red;", "a:b;", "width: 1px ;", "x", "color:red", "", ";", "a:b; ", "c:d;\n"])
                ops.append({"op": "style", "s": s, "prepend": rng.random() < 0.5, "html": rng.random() < 0.2})
        h = {"init": rng.choice(INITIAL), "init_html": rng.random() < 0.2, "style": rng.choice([None, None, "k:v;", "no-semicolon", " k:v; ", "k:v;\n", "\tk:v;"]), "ops": ops}
        if rng.random() < 0.12:
            h.update(init=None, style=None, bare=rng.choice([True, "tagify"]))
        ctx.guard(run_history, ctx, h, witness={"history": h})
        ctx.case(h, nontrivial=nontrivial(h))
        for op in ops:
            ctx.state("ops", (op["op"], op.get("prepend")))
    # 3. css()
    for _ in range(ctx.budget(1500, 60000)):
        n = rng.randint(0, 6)
        keys = rng.sample(CSS_KEYS, n)
        vals = [rng.choice(CSS_VALS) for _ in keys]
        collapse = rng.choice([None, None, "", "\n", " "])
        check_css(ctx, keys, vals, collapse)
        ctx.case(("css", keys, vals, collapse), nontrivial=any(css_name(k) != k for k in keys))
    ctx.sample({"css_keys": ["font_size", "backgroundColor"], "result": ht.css(font_size="12px", backgroundColor="red")})
