"""C20 - JSX components convert purely and surface all dependencies."""

from __future__ import annotations

import os

from ..loader import ht, core, jsx_mod
from ..ref import jsexpr
from ..mon.purity import fp, ids
from .. import gen

ID = "C20"
LEVEL = "exploration"
RULE = ("component trees (depth<=5) mixing JSX components, HTML tags, strings, numbers, jsx() expressions, tagifiable doubles, "
        "dependencies and bare metadata nodes as children (added by constructor / append / extend / nested lists) and as prop values "
        "(None, bool, int, float, str, list, tuple, dict, jsx(), tag, component), converted 1-5 times via tagify()/str()/repr()/"
        "_repr_html_(). non-trivial = >=2 components, >=1 metadata node below the top level and >=1 non-scalar prop; distinct by digest")
ASSUMPTIONS = ["strings are free of backslashes and line breaks (statement); HTML() children, CSS-string styles and tagifiables expanding "
               "to a TagList are outside the statement and not generated"]
SHARDS = {"quick": 1, "thorough": 16}

COMPONENTS = ["Foo", "Bar", "Baz", "My.Comp", "UI.Card"]
STRS = ["hello", "a b", "it's", "say \"hi\"", "x=1;", "ünï", "50%", "", "{curly}", "a,b", "(p)", "a&b", "<i>x</i>", "x>y", "&amp;", "1 < 2 && 3",
        # text that looks like a placeholder of some templating scheme is text
        "{name}", "Hello {name}!", "{component}", "{0} %s $1 ${x} %(name)s", "{{x}}", "<%= y %>"]


class JTF:
    """Tagifiable (not a Tag / component) whose tagify() returns the built payload as is."""

    def __init__(self, payload):
        self.payload = payload

    def tagify(self):
        return build(self.payload)


class NestedConv:
    """Tagifiable whose tagify() itself converts another component (as a widget wrapping a component would)."""

    def __init__(self, payload):
        self.payload = payload

    def tagify(self):
        inner = jsx_mod.jsx_tag_create("InnerWidget")("w", ht.HTMLDependency("inner-only", "1.0"))
        str(inner)
        inner.tagify()
        return build(self.payload)


class Counter:
    def __init__(self):
        self.n = 0

    def next(self):
        self.n += 1
        return self.n


# ------------------------------------------------------------------ recipes
def rand_prop(rng, cnt, depth, nested=False):
    k = rng.choice(["none", "bool", "int", "float", "str", "str", "list", "tuple", "dict", "expr", "tag", "comp", "tfprop", "exprplus"])
    if k in ("int", "float", "str", "list", "tuple", "dict", "expr") and rng.random() < 0.12:
        r_ = rand_prop(rng, cnt, depth, nested)
        if r_["p"] in ("num", "str", "list", "tuple", "dict", "expr"):
            r_["sub"] = True
        return r_
    if nested and k == "tfprop":
        k = "str"   # (only a prop VALUE that is a tagifiable is expanded; one buried in a list or dict is outside the statement)
    if depth <= 0 and k in ("tag", "comp", "list", "tuple", "dict"):
        k = "str"
    if k == "none":
        return {"p": "none"}
    if k == "bool":
        return {"p": "bool", "v": rng.random() < 0.5}
    if k == "int":
        return {"p": "num", "v": rng.choice([0, 1, -3, 42, 10**15, 2**53 - 1, 2**53, 2**53 + 1, -2**60, 10**30, -1])}
    if k == "float":
        return {"p": "num", "v": rng.choice([2.0, -0.5, 1e21, 3.25, 0.1 + 0.2, 1 / 3, 1e-7, 2.0 ** 53 + 2, 123456789.123456789, -1e-320])}
    if k == "str":
        return {"p": "str", "v": rng.choice(STRS)}
    if k in ("list", "tuple"):
        return {"p": k, "v": [rand_prop(rng, cnt, depth - 1, True) for _ in range(rng.randint(0, 3))]}
    if k == "dict":
        # (keys that mean something as TOP-LEVEL props mean nothing inside a dict value: written like any other key)
        keys = rng.sample(["k0", "k1", "k2", "style", "className", "class", "children", "key", "ref", "dangerouslySetInnerHTML", "data-x", "aria_label"], rng.randint(0, 3))
        return {"p": "dict", "v": [[k_, rand_prop(rng, cnt, depth - 1, True) if k_ != "style" or rng.random() < 0.3 else rng.choice([{"p": "str", "v": "compact"}, {"p": "none"}, {"p": "str", "v": "a:b;c:d:e"}, {"p": "num", "v": 2}])]
                                  for k_ in keys]}
    if k == "expr":
        return {"p": "expr", "v": "__jsx_%d__" % cnt.next()}
    if k == "exprplus":
        # jsx(...) + "plain" is a plain string again (only jsx + jsx stays an expression)
        jt = rng.random() < 0.4
        return {"p": "exprplus", "v": "__jsx_%d__" % cnt.next(), "tail": rng.choice(["_t1", "", "_t22"] if jt else [" tail", "", "+1"]), "jsx_tail": jt}
    if k == "tfprop":
        # a prop whose value is a tagifiable object expanding to a tag (with a dependency inside) or to a component
        inner = rand_tag(rng, cnt, 0) if rng.random() < 0.6 else rand_comp(rng, cnt, 0, allow_tf=False)
        if inner["k"] == "jtag":
            inner["c"] = inner["c"] + [rand_dep(rng, cnt)]
        return {"p": "node", "v": {"k": "jtf", "payload": inner}}
    if k == "tag":
        return {"p": "node", "v": rand_tag(rng, cnt, depth - 1)}
    return {"p": "node", "v": rand_comp(rng, cnt, depth - 1, allow_tf=not nested)}


def rand_dep(rng, cnt):
    if rng.random() < 0.35:
        # the same library in several places / in two versions
        return {"k": "dep", "name": rng.choice(["shared", "lib2"]), "version": rng.choice(["1.0", "2.0"]), "script": [{"src": "x.js"}]}
    if rng.random() < 0.08:
        # a user dependency that happens to carry the name of a packaged library: it is surfaced like any other, next to the packaged one
        return {"k": "dep", "name": rng.choice(["react", "react-dom"]), "version": rng.choice(["0.1", "99.0"]), "script": [{"src": "own-build.js"}]}
    return {"k": "dep", "name": "dep%d" % cnt.next(), "version": "1.0", "script": [{"src": "x.js"}]}


def rand_child(rng, cnt, depth, allow_tf=True):
    ks = ["jsx", "jtag", "jtag", "jtext", "jtext", "jexpr", "jnum", "dep", "meta", "list"] + (["jtf"] if allow_tf else [])
    k = rng.choice(ks)
    if depth <= 0 and k in ("jsx", "jtag", "list", "jtf"):
        k = "jtext"
    if k == "jsx":
        return rand_comp(rng, cnt, depth - 1)
    if k == "jtag":
        return rand_tag(rng, cnt, depth - 1)
    if k == "jtext":
        return {"k": "jtext", "s": rng.choice(STRS)}
    if k == "jexpr":
        return {"k": "jexpr", "s": "__jsx_%d__" % cnt.next()}
    if k == "jnum":
        return {"k": "jnum", "v": rng.choice([0, 7, 2.5, -1])}
    if k == "dep":
        return rand_dep(rng, cnt)
    if k == "meta":
        return {"k": "meta"}
    if k == "list":
        return {"k": "list", "t": rng.choice(["list", "tuple", "taglist"]), "c": [rand_child(rng, cnt, depth - 1, allow_tf) for _ in range(rng.randint(0, 3))]}
    # tagifiable: expands to a tag, a string, a dependency or a component
    pk = rng.choice(["jtag", "jtag", "jtext", "dep", "jsx"])
    if pk == "jtag":
        payload = rand_tag(rng, cnt, max(depth - 1, 0), allow_tf=False)
    elif pk == "jtext":
        payload = {"k": "jtext", "s": rng.choice(STRS)}
    elif pk == "dep":
        payload = rand_dep(rng, cnt)
    else:
        payload = rand_comp(rng, cnt, max(depth - 1, 0), allow_tf=False)
    r = {"k": "jtf", "payload": payload}
    if rng.random() < 0.25:
        r["nested_conversion"] = True
    return r


PROP_NAMES = ["id", "value", "onClick", "class_", "data_x", "x_", "x", "aria_label", "title", "items", "cfg", "render", "for_", "x__",
              # names React itself gives a meaning to: written like any other prop
              "children", "key", "ref", "className", "htmlFor", "defaultValue"]
TAG_ATTRS = ["id", "class_", "title", "data_v", "href"]


def rand_comp(rng, cnt, depth, allow_tf=True):
    props = []
    for _ in range(rng.choice([0, 0, 1, 2, 3, 4])):
        props.append([rng.choice(PROP_NAMES), rand_prop(rng, cnt, min(depth, 2), nested=not allow_tf)])
    if rng.random() < 0.15:
        # a `style` prop given as a dict: every entry written once, None as null, like any other dict-valued prop
        simple = lambda: rng.choice([{"p": "none"}, {"p": "num", "v": 0}, {"p": "str", "v": "1px"}, {"p": "num", "v": 2.5}, {"p": "none"},    # noqa: E731
                                     {"p": "dict", "v": [["c", {"p": "none"}]]}, {"p": "bool", "v": False}])
        props.append(["style", {"p": "dict", "v": [[k_, simple()] for k_ in rng.sample(["color", "margin", "top", "fontSize", "--x", "a"], rng.randint(1, 4))]}])
    kids = [rand_child(rng, cnt, depth, allow_tf) for _ in range(rng.choice([0, 0, 1, 2, 3]))] if depth > 0 else []
    return {"k": "jsx", "name": rng.choice(COMPONENTS), "props": props, "c": kids, "how": rng.choice(["ctor", "ctor", "append", "extend", "mixed", "extend_each"])}


def rand_tag(rng, cnt, depth, allow_tf=True):
    attrs = [[rng.choice(TAG_ATTRS), {"t": rng.choice(["str", "str", "num", "true"]), "s": rng.choice(STRS), "v": rng.choice([1, 2.5])}]
             for _ in range(rng.choice([0, 0, 1, 2]))]
    kids = [rand_child(rng, cnt, depth, allow_tf) for _ in range(rng.choice([0, 1, 2, 3]))] if depth > 0 else []
    return {"k": "jtag", "name": rng.choice(["div", "span", "p", "ul", "x-el"]), "attrs": attrs, "c": kids}


# ------------------------------------------------------------------ builder
class _ListSub(list):
    pass


class _TupleSub(tuple):
    pass


class _IntSub(int):
    pass


class _FloatSub(float):
    pass


class _JsxSub(jsx_mod.jsx):
    pass


class _StrSub(str):
    pass


def build_prop(p):
    """Values of a subclass of a supported type (OrderedDict, named-tuple-like, int/float/str/jsx subclasses) are written like the base type."""
    k = p["p"]
    sub = p.get("sub")
    if k == "none":
        return None
    if k in ("bool", "num", "str"):
        v = p["v"]
        if sub and type(v) in (int, float, str):
            return {int: _IntSub, float: _FloatSub, str: _StrSub}[type(v)](v)
        return v
    if k == "list":
        return (_ListSub if sub else list)(build_prop(x) for x in p["v"])
    if k == "tuple":
        return (_TupleSub if sub else tuple)(build_prop(x) for x in p["v"])
    if k == "dict":
        import collections as _co
        return (_co.OrderedDict if sub else dict)((kk, build_prop(v)) for kk, v in p["v"])
    if k == "expr":
        return (_JsxSub if sub else jsx_mod.jsx)(p["v"])
    if k == "exprplus":
        return jsx_mod.jsx(p["v"]) + (jsx_mod.jsx(p["tail"]) if p["jsx_tail"] else p["tail"])
    return build(p["v"])


def build(r):
    k = r["k"]
    if k == "jsx":
        kids = [build(c) for c in r["c"]]
        props = {}
        for n, v in r["props"]:
            props.pop(n, None) if False else None
            props[n] = build_prop(v)
        mk = jsx_mod.jsx_tag_create(r["name"])
        how = r.get("how", "ctor")
        if how == "ctor" or not kids:
            return mk(*kids, **props)
        if how == "append":
            x = mk(**props)
            for c in kids:
                x.append(c)
            return x
        if how == "extend":
            x = mk(**props)
            x.extend(kids)
            return x
        if how == "extend_each":
            # one extend() per child; a plain string handed to extend() is ONE child (the text), as for Tag / TagList
            x = mk(**props)
            for c in kids:
                x.extend(c if type(c) is str else [c])
            return x
        x = mk(kids[0], **props)
        x.append(*kids[1:]) if kids[1:] else None
        return x
    if k == "jtag":
        attrs = {}
        for n, v in r["attrs"]:
            attrs[n] = v["s"] if v["t"] == "str" else v["v"] if v["t"] == "num" else True
        return ht.Tag(r["name"], *[build(c) for c in r["c"]], _add_ws=True, **attrs)
    if k == "jtext":
        return r["s"]
    if k == "jexpr":
        return jsx_mod.jsx(r["s"])
    if k == "jnum":
        return r["v"]
    if k == "jtf":
        return NestedConv(r["payload"]) if r.get("nested_conversion") else JTF(r["payload"])
    if k == "list":
        kids = [build(c) for c in r["c"]]
        return kids if r["t"] == "list" else tuple(kids) if r["t"] == "tuple" else ht.TagList(*kids)
    return gen.build(r)


# ------------------------------------------------------------------ expected expression and metadata
def norm(n):
    if n.endswith("_"):
        n = n[:-1]
    return n.replace("_", "-")


def raw_kwargs(props):
    """Keyword arguments as Python passes them: one entry per raw name (first position, last value)."""
    d = {}
    for n, v in props:
        d[n] = v
    return list(d.items())


def exp_prop(p):
    k = p["p"]
    if k == "none":
        return ("null",)
    if k == "bool":
        return ("bool", p["v"])
    if k == "num":
        return ("num", str(p["v"]))
    if k == "str":
        return ("str", p["v"])
    if k in ("list", "tuple"):
        return ("array", [exp_prop(x) for x in p["v"]])
    if k == "dict":
        d = {}
        for kk, v in p["v"]:
            d[kk] = exp_prop(v)
        return ("object", list(d.items()))
    if k == "expr":
        return ("atom", p["v"])
    if k == "exprplus":
        return ("atom", p["v"] + p["tail"]) if p["jsx_tail"] else ("str", p["v"] + p["tail"])
    if p["v"]["k"] == "jtf":
        return exp_node(p["v"]["payload"])   # a tagifiable prop value is written as its expansion
    return exp_node(p["v"])


def flat_kids(cs):
    out = []
    for c in cs:
        if c["k"] == "list":
            out.extend(flat_kids(c["c"]))
        elif c["k"] == "jtf":
            out.append(c["payload"])  # replaced by its expansion
        else:
            out.append(c)
    return out


def exp_node(r):
    k = r["k"]
    if k == "jtext":
        return ("str", r["s"])
    if k == "jexpr":
        return ("str", r["s"])
    if k == "jnum":
        return ("str", str(r["v"]))
    kids = flat_kids(r["c"])
    vis = [exp_node(c) for c in kids if c["k"] not in ("dep", "meta")]
    if k == "jsx":
        props = {}
        for n, v in raw_kwargs(r["props"]):
            props[norm(n)] = exp_prop(v)
        target = ("component", r["name"])
        plist = list(props.items())
    else:
        props = {}
        for n, v in r["attrs"]:
            text = v["s"] if v["t"] == "str" else str(v["v"]) if v["t"] == "num" else ""
            props[norm(n)] = ("str", text)
        target = ("tag", r["name"])
        plist = list(props.items())
    if not plist and not kids:
        return ("call", target, None, [])
    return ("call", target, plist, vis)


def metadata_of(r, out):
    """Names of dependencies ('meta' for bare nodes) that must surface, per the statement."""
    k = r["k"]
    if k == "dep":
        out.append(r["name"])
    elif k == "meta":
        out.append("<meta>")
    elif k == "jtf":
        metadata_of(r["payload"], out)
    elif k == "list":
        for c in r["c"]:
            metadata_of(c, out)
    elif k in ("jsx", "jtag"):
        if k == "jsx":
            seen = {}
            for n, v in raw_kwargs(r["props"]):
                seen[norm(n)] = v
            for v in seen.values():
                if v["p"] == "node":
                    metadata_of(v["v"], out)
        for c in r["c"]:
            metadata_of(c, out)
    return out


_FILES_SEEN = {}


def _packaged(d):
    """The react / react-dom dependency the library itself ships (a user's dependency may carry the same name)."""
    return d.name in ("react", "react-dom") and isinstance(d.source, dict) and d.source.get("package") == "htmltools" and d.source.get("subdir") == "lib/" + d.name


# ------------------------------------------------------------------ one case
def extract_js(script_tag):
    html = [c for c in script_tag.children if isinstance(c, ht.HTML)]
    if len(html) != 1:
        raise ValueError("script tag has %d HTML children" % len(html))
    s = html[0].as_string()
    a = s.index("ReactDOM.render(\n") + len("ReactDOM.render(\n")
    b = s.rindex("\n  , container);")
    return s[a:b], s


def check_case(ctx, r, n_conv=2):
    wit = {"component": r}
    comp = build(r)
    before = fp(comp)
    before_ids = ids(comp)
    results = []
    ops = ["tagify", "str", "tagify", "repr", "_repr_html_"][:n_conv]
    for op in ops:
        ctx.count("monitor.purity")
        res = comp.tagify() if op == "tagify" else str(comp) if op == "str" else repr(comp) if op == "repr" else comp._repr_html_()
        if fp(comp) != before:
            ctx.violation("jsx-tagify-mutates-component", "%s() changed the component (or something reachable from it)" % op, dict(wit, op=op))
            return False
        if ids(comp) != before_ids:
            # the very same tag / component / dependency objects are still where the caller put them (not equal copies)
            ctx.violation("jsx-tagify-mutates-component", "%s() replaced objects reachable from the component by other objects" % op, dict(wit, op=op))
            return False
        results.append((op, res))
    tags = [res for op, res in results if op == "tagify"]
    strs = [res for op, res in results if op != "tagify"]
    if len({fp(t) for t in tags}) > 1 or len(set(strs)) > 1:
        ctx.violation("jsx-conversion-not-repeatable", "converting the component again gave a different result", wit)
        return False
    t = tags[0]
    if strs and strs[0] != str(t):
        ctx.violation("jsx-str-differs-from-tagify", "str(component) differs from str(component.tagify())", wit)
        return False
    ctx.count("oracle.result_shape")
    if type(t) is not ht.Tag or t.name != "script":
        ctx.violation("jsx-result-not-script", "tagify() returned %r" % (t,), wit)
        return False
    all_deps = [c for c in t.children if isinstance(c, ht.HTMLDependency)]
    deps = [d for d in all_deps if _packaged(d)]
    user_deps = [d for d in all_deps if not _packaged(d)]
    metas = [c for c in t.children if isinstance(c, ht.MetadataNode) and not isinstance(c, ht.HTMLDependency)]
    names = [d.name for d in deps]
    for lib in ("react", "react-dom"):
        if names.count(lib) != 1:
            ctx.violation("jsx-react-dependency-missing", "%s occurs %d times among the result's dependencies" % (lib, names.count(lib)), wit)
            return False
        d = deps[names.index(lib)]
        key_ = (lib, str(d.version), repr(d.source), tuple(s_["src"] for s_ in d.script))
        if key_ not in _FILES_SEEN:
            # (looked up once per distinct definition: resolving a package directory costs a temporary directory each time)
            src = d.source_path_map()["source"]
            _FILES_SEEN[key_] = [s_["src"] for s_ in d.script if not os.path.isfile(os.path.join(src, s_["src"]))]
        ctx.count("oracle.react_files")
        if _FILES_SEEN[key_] or not d.script:
            ctx.violation("jsx-react-file-missing", "%s script %s does not exist in the package" % (lib, _FILES_SEEN[key_] or "(none listed)"), wit)
            return False
    # what a caller does to one result (e.g. pointing react at another build) does not show up in the next conversion
    pristine = {lib: fp(deps[names.index(lib)]) for lib in ("react", "react-dom")}
    for lib in ("react", "react-dom"):
        d_ = deps[names.index(lib)]
        d_.script[0]["src"] = "CHANGED-BY-CALLER.js"
        d_.source = {"href": "https://cdn.example/" + lib}
    t_next = comp.tagify()
    for lib in ("react", "react-dom"):
        nd = [c for c in t_next.children if isinstance(c, ht.HTMLDependency) and c.name == lib and _packaged(c)]
        if len(nd) != 1 or fp(nd[0]) != pristine[lib]:
            ctx.violation("jsx-result-shares-state", "changing the %s dependency of one conversion result shows up in the next conversion" % lib, wit)
            return False
    # str() of the component is str() of its conversion, also when dependencies are serialised (JSON render mode)
    import htmltools as _h
    old_mode = _h.html_dependency_render_mode
    _h.html_dependency_render_mode = "json"
    try:
        s_comp, s_tag = str(comp), str(comp.tagify())
    finally:
        _h.html_dependency_render_mode = old_mode
    if s_comp != s_tag:
        ctx.violation("jsx-str-differs-from-tagify", "in JSON dependency mode str(component) differs from str(component.tagify())", wit)
        return False
    got_meta = sorted([d.name for d in user_deps] + ["<meta>"] * len(metas))
    want_meta = sorted(metadata_of(r, []))
    ctx.count("oracle.metadata")
    if got_meta != want_meta:
        missing = [x for x in want_meta if got_meta.count(x) < want_meta.count(x)]
        ctx.violation("jsx-metadata-missing" if missing else "jsx-metadata-duplicated",
                      "metadata nodes surfaced %r, expected %r" % (got_meta, want_meta), wit)
        return False
    # the generated expression mirrors the component
    ctx.count("oracle.expression")
    try:
        js, whole = extract_js(t)
        tree = jsexpr.parse(js)
    except (ValueError, jsexpr.JSParseError) as e:
        ctx.violation("jsx-expression-unparsable", "generated JavaScript does not parse: %s" % e, dict(wit, js=str(t)[:1500]))
        return False
    want = exp_node(r)
    if tree != want:
        ctx.violation("jsx-expression-differs", "React.createElement expression does not mirror the component: %s" % _first_diff(tree, want), dict(wit, js=js[:1500]))
        return False
    if ("JSXTag(\\\"%s\\\")" % r["name"]) not in whole and ('JSXTag("%s")' % r["name"]) not in whole:
        ctx.violation("jsx-wrapper-name", "error message in the wrapper does not name the component", wit)
        return False
    return True


def check_after_failure(ctx, r, rng):
    """A conversion that fails (a child that cannot be rendered) must not influence the next conversion."""
    class Unrenderable:
        def _repr_html_(self):
            return "<u>only self-rendering</u>"

    bad = jsx_mod.jsx_tag_create("Broken")(ht.HTMLDependency("stale-dep-a", "1.0"), ht.div(ht.HTMLDependency("stale-dep-b", "1.0")), Unrenderable())
    ctx.count("oracle.after_failure")
    try:
        bad.tagify()
    except Exception:
        pass
    else:
        return True  # (if the library ever learns to render it there is nothing to test here)
    return check_case(ctx, r, 2)


def check_reconvert(ctx, r, rng):
    """A conversion, then a change to the component (props / children, also of nested tags and components), then
    another conversion: the second result must mirror the changed component (nothing remembered from the first)."""
    import copy as _c

    r = _c.deepcopy(r)
    comp = build(r)
    str(comp)
    comp.tagify()
    log = []
    # nodes reachable as children (not through tagifiables or props): (live, recipe) pairs
    pairs = []

    def walk(lv, rc):
        pairs.append((lv, rc))
        kids = [c for c in flat_kids_raw(rc["c"])]
        if len(kids) != len(lv.children):
            return
        for lc, cc in zip(lv.children, kids):
            if cc["k"] in ("jsx", "jtag") and not isinstance(lc, (str, ht.MetadataNode)):
                walk(lc, cc)

    walk(comp, r)
    for step_i in range(rng.randint(2, 4)):
        lv, rc = rng.choice(pairs)
        m = rng.choice(["append_text", "append_dep", "set_prop", "extend", "update_dict"])
        if step_i == 0:
            lv, rc, m = comp, r, "update_dict"  # every history updates the root component's props with a mapping once
        if m == "append_text":
            lv.append("late text")
            rc["c"] = rc["c"] + [{"k": "jtext", "s": "late text"}]
        elif m == "extend":
            lv.extend(["e1", ht.Tag("i", "e2")])
            rc["c"] = rc["c"] + [{"k": "jtext", "s": "e1"}, {"k": "jtag", "name": "i", "attrs": [], "c": [{"k": "jtext", "s": "e2"}]}]
        elif m == "append_dep":
            lv.append(ht.HTMLDependency("latedep%d" % len(log), "1.0"))
            rc["c"] = rc["c"] + [{"k": "dep", "name": "latedep%d" % len(log), "version": "1.0"}]
        elif m == "update_dict" and rc["k"] == "jsx":
            lv.attrs.update({"data_late": "d", "class_": "lc"}, aria_x="ax")
            # dict semantics: an existing (normalised) name keeps its position and gets the new value, new names are appended
            props = [[n, v] for n, v in raw_kwargs(rc["props"])]
            merged = {}
            for n, v in props:
                merged[norm(n)] = [n, v]
            for n, v in (("data_late", {"p": "str", "v": "d"}), ("class_", {"p": "str", "v": "lc"}), ("aria_x", {"p": "str", "v": "ax"})):
                if norm(n) in merged:
                    merged[norm(n)][1] = v
                else:
                    merged[norm(n)] = [n, v]
            rc["props"] = list(merged.values())
        elif rc["k"] == "jsx":
            lv.attrs["late_prop"] = 7
            hit = [p for p in rc["props"] if norm(p[0]) == "late-prop"]
            for p_ in hit:
                p_[1] = {"p": "num", "v": 7}
            if not hit:
                rc["props"] = rc["props"] + [["late_prop", {"p": "num", "v": 7}]]
        else:
            lv.attrs["title"] = "late"
            hit = [a for a in rc["attrs"] if norm(a[0]) == "title"]
            for a in hit:
                a[1] = {"t": "str", "s": "late"}  # item assignment replaces in place
            if not hit:
                rc["attrs"] = rc["attrs"] + [["title", {"t": "str", "s": "late"}]]
        log.append(m)
    ctx.count("oracle.reconvert")
    wit = {"component_after_mutation": r, "mutations": log}
    t = comp.tagify()
    try:
        js, _ = extract_js(t)
        tree = jsexpr.parse(js)
    except (ValueError, jsexpr.JSParseError) as e:
        ctx.violation("jsx-expression-unparsable", "after mutations %s: %s" % (log, e), wit)
        return False
    want = exp_node(r)
    if tree != want:
        ctx.violation("jsx-stale-after-mutation", "after %s the expression does not mirror the changed component: %s" % (log, _first_diff(tree, want)), dict(wit, js=js[:1200]))
        return False
    got_meta = sorted([d.name for d in t.children if isinstance(d, ht.HTMLDependency) and not _packaged(d)]
                      + ["<meta>"] * sum(1 for c in t.children if isinstance(c, ht.MetadataNode) and not isinstance(c, ht.HTMLDependency)))
    if got_meta != sorted(metadata_of(r, [])):
        ctx.violation("jsx-stale-after-mutation", "after %s the surfaced metadata %r is not that of the changed component" % (log, got_meta), wit)
        return False
    if str(comp) != str(t):
        ctx.violation("jsx-stale-after-mutation", "str(component) after the change differs from its fresh conversion", wit)
        return False
    return True


def flat_kids_raw(cs):
    out = []
    for c in cs:
        if c["k"] == "list":
            out.extend(flat_kids_raw(c["c"]))
        else:
            out.append(c)
    return out


def _first_diff(a, b, path="$"):
    if type(a) is not type(b):
        return "%s: %r vs %r" % (path, a, b)
    if isinstance(a, (list, tuple)):
        if len(a) != len(b):
            return "%s: length %d vs %d (%r vs %r)" % (path, len(a), len(b), a if len(repr(a)) < 200 else "...", b if len(repr(b)) < 200 else "...")
        for i, (x, y) in enumerate(zip(a, b)):
            d = _first_diff(x, y, "%s[%d]" % (path, i))
            if d:
                return d
        return None
    return None if a == b else "%s: %r vs %r" % (path, a, b)


def check_allowed_props(ctx, rng):
    ctx.count("oracle.allowed_props")
    allowed = rng.sample(PROP_NAMES, 3)
    mk = jsx_mod.jsx_tag_create("Foo", allowedProps=allowed)
    ok = rng.choice(allowed)
    bad = rng.choice([n for n in PROP_NAMES if n not in allowed])
    try:
        mk(**{ok: 1})
    except Exception as e:
        ctx.violation("allowed-prop-rejected", "prop %r in the allow-list rejected: %r" % (ok, e), {"allowed": allowed})
        return
    for val in (2, None, False, "", 0, [], ht.div()):
        try:
            mk(**{ok: 1, bad: val})
        except Exception:
            continue
        ctx.violation("disallowed-prop-accepted", "prop %r=%r outside the allow-list %r accepted" % (bad, val, allowed), {"allowed": allowed, "prop": bad})
        return
    # ... nor does an undeclared prop get in by another door: as a positional mapping, or through the name's other spelling
    for attempt, what in ((lambda: mk({bad: 1}), "a positional dict"), (lambda: mk({bad: 1}, "child", **{ok: 1}), "a positional dict next to a child and a declared prop"),
                          (lambda: mk(__import__("collections").OrderedDict([(bad, 1)])), "a positional OrderedDict")):
        try:
            t_ = attempt()
        except Exception:
            continue
        if norm(bad) in t_.attrs or bad in t_.attrs:
            ctx.violation("disallowed-prop-accepted", "prop %r outside the allow-list %r got into the component through %s" % (bad, allowed, what), {"allowed": allowed, "prop": bad})
            return
    try:
        jsx_mod.jsx_tag_create("lower")()
    except Exception:
        return
    ctx.violation("lowercase-component-accepted", "component name without capital accepted", {})


def replay(ctx, w):
    if "component" in w:
        check_case(ctx, w["component"], 5)


def nontrivial(r):
    def walk(x):
        yield x
        for c in x.get("c", []):
            yield from walk(c)
        if x["k"] == "jtf":
            yield from walk(x["payload"])
        for _, v in x.get("props", []):
            if v["p"] == "node":
                yield from walk(v["v"])

    nodes = list(walk(r))
    comps = sum(1 for x in nodes if x["k"] == "jsx")
    deep_meta = any(x["k"] in ("dep", "meta") for c in r["c"] for x in walk(c) if x is not c or c["k"] == "jtf")
    rich = any(v["p"] in ("list", "tuple", "dict", "node", "expr") for x in nodes for _, v in x.get("props", []))
    return comps >= 2 and deep_meta and rich


def run(ctx):
    rng = ctx.rng
    ctx.require("monitor.purity", 1000)
    ctx.require("oracle.expression", 500)
    ctx.require("oracle.metadata", 500)
    fixed = {"k": "jsx", "name": "Foo", "props": [], "how": "ctor",
             "c": [{"k": "jtf", "payload": {"k": "dep", "name": "depA", "version": "1.0"}},
                   {"k": "jtag", "name": "div", "attrs": [], "c": [{"k": "jtf", "payload": {"k": "jtag", "name": "span", "attrs": [], "c": [
                       {"k": "jtext", "s": "Hello"}, {"k": "jsx", "name": "Foo", "props": [], "c": [{"k": "jtext", "s": "world"}], "how": "ctor"},
                       {"k": "dep", "name": "depB", "version": "1.0"}]}}]}]}
    if ctx.shard == 0:
        ctx.guard(check_case, ctx, fixed, 5, witness={"component": fixed})
        ctx.case(fixed)
        ctx.sample({"component": fixed, "output": str(build(fixed))})
        # sizes ordinary components never reach: 160 props, 1800 children, components nested 70 deep, long strings
        big_props = [["p%d_x" % k, ({"p": "num", "v": k} if k % 4 == 0 else {"p": "str", "v": "s%d 'q'" % k} if k % 4 == 1 else
                                  {"p": "list", "v": [{"p": "num", "v": j} for j in range(k % 40)]} if k % 4 == 2 else {"p": "dict", "v": [["k%d" % j, {"p": "bool", "v": bool(j % 2)}] for j in range(k % 30)]})]
                     for k in range(160)]
        big_kids = [({"k": "jtext", "s": "t%d" % k} if k % 3 == 0 else {"k": "jtag", "name": "span", "attrs": [], "c": [{"k": "jtext", "s": "k"}]} if k % 3 == 1
                     else {"k": "dep", "name": "bigdep%d" % (k % 40), "version": "1.0", "script": [{"src": "x.js"}]}) for k in range(1800)]
        big = {"k": "jsx", "name": "Big.List", "props": big_props, "c": big_kids, "how": "extend"}
        deep = {"k": "jsx", "name": "Leaf", "props": [["value", {"p": "str", "v": "x" * 120000}]], "c": [{"k": "dep", "name": "deepdep", "version": "1.0", "script": [{"src": "x.js"}]}], "how": "ctor"}
        for d_ in range(70):
            deep = ({"k": "jsx", "name": "Wrap", "props": [["level", {"p": "num", "v": d_}]], "c": [{"k": "jtext", "s": "l%d" % d_}, deep], "how": "append"} if d_ % 2
                    else {"k": "jtag", "name": "div", "attrs": [], "c": [deep, {"k": "jtext", "s": "r%d" % d_}]})
        deep = {"k": "jsx", "name": "Root", "props": [["child", {"p": "node", "v": {"k": "jtag", "name": "p", "attrs": [], "c": [{"k": "dep", "name": "propdep", "version": "1.0", "script": [{"src": "x.js"}]}]}}]], "c": [deep], "how": "ctor"}
        for r_ in (big, deep):
            ctx.guard(check_case, ctx, r_, 3, witness={"component": "large deterministic component " + r_["name"]})
            ctx.case(("large", r_["name"]), nontrivial=True)
            ctx.count("very_large_components")
    for _ in range(ctx.budget(1500, 400000)):
        cnt = Counter()
        r = rand_comp(rng, cnt, rng.choice([0, 1, 2, 3, 4, 5]))
        ctx.guard(check_case, ctx, r, rng.randint(1, 5), witness={"component": r})
        ctx.case(r, nontrivial=nontrivial(r))
        ctx.state("top_shape", (r["how"], min(len(r["c"]), 3), min(len(r["props"]), 4)))
        if rng.random() < 0.05:
            ctx.guard(check_allowed_props, ctx, rng, witness={"what": "allowedProps"})
        if rng.random() < 0.3:
            ctx.guard(check_reconvert, ctx, r, rng, witness={"component": r})
        if rng.random() < 0.1:
            ctx.guard(check_after_failure, ctx, r, rng, witness={"component": r, "scenario": "after a failed conversion"})
