"""C01 - rendered markup parses back to the same element tree."""

from __future__ import annotations

import html
from html.parser import HTMLParser

from ..loader import ht, core
from ..ref import tokenizer, charref
from ..ref.attrs import AttrModel, consume_value
from ..mon import contracts, escape
from .. import gen

ID = "C01"
LEVEL = "exploration"
RULE = ("random element trees (catalogue, void, SVG and custom names; independent whitespace flags; 0-4 hostile "
        "attributes; text classes over all of Unicode; numbers) rendered through get_html_string(indent, eol), str(), "
        "render() and TagList.get_html_string, plus one deterministic tree per catalogue/void name and degenerate deep / "
        "wide trees; non-trivial = the tree has >= 3 elements and at least one text leaf containing & < or >; distinct by "
        "recipe digest")
ASSUMPTIONS = ["the harness tokenizer accepts exactly the writer's grammar; stdlib html.parser is run as a second opinion",
               "script/style elements take part with metacharacter-free text only (their text is raw by design, C04)"]
SHARDS = {"quick": 1, "thorough": 16}

EOLS = ["\n", "\n", "\r\n", "", " ", "\t\n"]
INDENTS = [0, 0, 1, 2, 7]


# ---------------------------------------------------------------- model side
def model_items(r):
    """[("elem", recipe) | ("text", str)] with adjacent text/number leaves merged."""
    items = []
    for c in gen.flat_children(r):
        k = c["k"]
        if k in ("meta", "dep", "headc"):
            continue
        if k in ("text", "num"):
            s = gen.leaf_text(c)
            if items and items[-1][0] == "text":
                items[-1] = ("text", items[-1][1] + s)
            else:
                items.append(("text", s))
        elif k == "tag":
            items.append(("elem", c))
        else:
            raise ValueError("C01 model does not handle kind %s" % k)
    return items


def expected_attrs(r):
    m = AttrModel()
    m.update([[(n, v)] for n, v in r.get("attrs", [])])
    return m


class Mismatch(Exception):
    def __init__(self, key, msg):
        super().__init__(msg)
        self.key = key


def compare(node, r, ws_chars, path="/"):
    """node: tokenizer.Node; r: tag recipe."""
    here = path + r["name"]
    if node.name != r["name"]:
        raise Mismatch("element-mismatch", "%s: parsed <%s>, model <%s>" % (here, node.name, r["name"]))
    items = model_items(r)
    void_childless = r["name"] in gen.VOID and not items
    if node.selfclosed != void_childless:
        raise Mismatch("void-form", "%s: self-closed=%s but model says void-and-childless=%s" % (here, node.selfclosed, void_childless))
    m = expected_attrs(r)
    names = [a for a, _ in node.attrs]
    if names != m.names():
        raise Mismatch("attr-order-or-set", "%s: attributes %r, model %r" % (here, names, m.names()))
    for a, raw in node.attrs:
        why = consume_value(raw, m.items[a])
        if why:
            raise Mismatch("attr-value", "%s: attribute %s: %s" % (here, a, why))
    # children
    actual = []
    for ch in node.children:
        if isinstance(ch, tokenizer.Node):
            actual.append(("elem", ch))
        else:
            kind, raw = ch[0], ch[1]
            txt = raw if kind == "raw" else _decode_text(raw, here)
            if actual and actual[-1][0] == "text":
                actual[-1] = ("text", actual[-1][1] + txt)
            else:
                actual.append(("text", txt))
    a2 = [(k, v.strip(ws_chars) if k == "text" else v) for k, v in actual]
    a2 = [x for x in a2 if not (x[0] == "text" and x[1] == "")]
    e2 = [(k, v.strip(ws_chars) if k == "text" else v) for k, v in items]
    e2 = [x for x in e2 if not (x[0] == "text" and x[1] == "")]
    if [k for k, _ in a2] != [k for k, _ in e2]:
        raise Mismatch("child-structure", "%s: children kinds %r, model %r" % (here, [k for k, _ in a2][:12], [k for k, _ in e2][:12]))
    for (k, av), (_, ev) in zip(a2, e2):
        if k == "text":
            if av != ev:
                raise Mismatch("text-run", "%s: text run %r, model %r" % (here, av[:60], ev[:60]))
        else:
            compare(av, ev, ws_chars, here + "/")


def _decode_text(raw, here):
    # every '&' must start a reference that decodes to one of & < > ; no raw < > can be here (tokenizer)
    for u in charref.units(raw):
        if u[0] == "lit" and u[1] in "&<>":
            raise Mismatch("text-raw-metachar", "%s: raw %r in text" % (here, u[1]))
        if u[0] == "ref" and u[2] not in "&<>":
            raise Mismatch("text-over-escaped", "%s: reference %s in text" % (here, u[1]))
    return charref.decode(raw)


# ---------------------------------------------------------------- second opinion
class _HP(HTMLParser):
    def __init__(self):
        super().__init__(convert_charrefs=False)
        self.ev = []

    def handle_starttag(self, tag, attrs):
        self.ev.append(("open", tag, [a for a, _ in attrs], [v for _, v in attrs]))

    def handle_startendtag(self, tag, attrs):
        self.ev.append(("selfclosed", tag, [a for a, _ in attrs], [v for _, v in attrs]))

    def handle_endtag(self, tag):
        self.ev.append(("close", tag))

    def handle_comment(self, data):
        self.ev.append(("comment",))

    def handle_decl(self, decl):
        self.ev.append(("decl",))

    def handle_pi(self, data):
        self.ev.append(("pi",))

    def unknown_decl(self, data):
        self.ev.append(("decl",))


def second_opinion(out, toks):
    """Compare the tag-event sequence of stdlib html.parser with the harness tokenizer's."""
    hp = _HP()
    hp.feed(out)
    hp.close()
    mine = []
    for t in toks:
        if t[0] == "open":
            mine.append(("selfclosed" if t[3] else "open", t[1].lower(), [a.lower() for a, _ in t[2]],
                         [html.unescape(v) for _, v in t[2]]))
        elif t[0] == "close":
            mine.append(("close", t[1].lower()))
    theirs = []
    for e in hp.ev:
        if e[0] in ("open", "selfclosed"):
            theirs.append((e[0], e[1], e[2], [("" if v is None else v) for v in e[3]]))
        else:
            theirs.append(e)
    return mine == theirs, mine, theirs


# ---------------------------------------------------------------- one case
def render_variants(rng, tag):
    indent = rng.choice(INDENTS)
    eol = rng.choice(EOLS)
    v = rng.random()
    if v < 0.55:
        return tag.get_html_string(indent, eol), eol, "get_html_string(%d,%r)" % (indent, eol)
    if v < 0.7:
        return str(tag), "\n", "str"
    if v < 0.85:
        return tag.render()["html"], "\n", "render"
    return ht.TagList(tag).get_html_string(indent, eol), eol, "TagList.get_html_string(%d,%r)" % (indent, eol)


def check_case(ctx, r, variant=None):
    try:
        return _check_case(ctx, r, variant)
    except Exception as e:
        ctx.violation("render-raises", "building/rendering raised %r" % e, {"recipe": r})


def _check_case(ctx, r, variant):
    tag = gen.build_root(r)
    if variant == "document" or (variant is None and ctx.rng.random() < 0.08):
        # the tree between two text leaves as the content of a document: it sits, with its neighbours, in the document's <body>
        lead, tail = gen.T("lead & <text>"), {"k": "num", "v": 7}
        out = ht.HTMLDocument(gen.build(lead), tag, gen.build(tail)).render()["html"]
        if not out.startswith("<!DOCTYPE html>\n"):
            ctx.violation("root-structure", "document output does not start with the doctype", {"recipe": r, "output": out[:300]})
            return
        out, eol, how = out[len("<!DOCTYPE html>\n"):], "\n", "HTMLDocument(text, tree, number).render()"
        r = gen.TAG("html", gen.TAG("head", gen.TAG("meta", attrs=[["charset", {"t": "str", "s": "utf-8"}]])), gen.TAG("body", lead, r, tail))
        ctx.count("document_variants")
    elif variant == "document_lone" or (variant is None and r["k"] == "tag" and r["name"] in ("html", "body") and ctx.rng.random() < 0.5):
        # the tree is the document's ONLY content: a user's <html> is the root (its children stay where they are, a <head> is
        # created / completed), a user's <body> is the body, anything else is wrapped - the reference assembly of C11 says what to expect
        from ..ref import document as refdoc

        out = ht.HTMLDocument(tag).render()["html"]
        if not out.startswith("<!DOCTYPE html>\n"):
            ctx.violation("root-structure", "document output does not start with the doctype", {"recipe": r, "output": out[:300]})
            return
        out, eol, how = out[len("<!DOCTYPE html>\n"):], "\n", "HTMLDocument(tree).render()"
        r, _deps = refdoc.assemble([r], [], "lib", True)
        ctx.count("document_variants")
    elif variant == "fragment_then_page" or (variant is None and isinstance(tag, ht.Tag) and ctx.rng.random() < 0.04):
        # a fragment that is shown on its own AND used as the start of a page which is then completed: the fragment still renders
        # as the tree it was built from
        frag = ht.TagList(tag)
        page = ht.HTMLDocument(frag, lang="en") if ctx.rng.random() < 0.5 else ht.HTMLDocument(frag)
        page.append(ht.div("appended to the page"), ht.tags.footer("f"))
        page.render()
        out, eol, how = frag.get_html_string(), "\n", "TagList(tree) after HTMLDocument(that list).append(...)"
        ctx.count("fragment_then_page_variants")
    elif variant is None:
        out, eol, how = render_variants(ctx.rng, tag)
    else:
        indent, eol = variant
        out, how = tag.get_html_string(indent, eol), "get_html_string(%d,%r)" % (indent, eol)
    ctx.count("oracle.parse_back")
    ws_chars = " \t\r\n\f" + eol
    wit = {"recipe": r, "how": how, "output": out[:2000]}
    try:
        toks = tokenizer.tokenize(out)
        forest = tokenizer.build_tree(toks)
    except tokenizer.Forged as f:
        ctx.violation("forged-markup", "%s (%s)" % (f, how), wit)
        return
    forest = [n for n in forest if not (not isinstance(n, tokenizer.Node) and n[1].strip(ws_chars) == "")]
    if len(forest) != 1 or not isinstance(forest[0], tokenizer.Node):
        ctx.violation("root-structure", "output is not a single root element (%s)" % how, wit)
        return
    try:
        compare(forest[0], r, ws_chars)
    except Mismatch as m:
        ctx.violation(m.key, "%s (%s)" % (m, how), wit)
        return
    agree, mine, theirs = second_opinion(out, toks)
    ctx.count("oracle.second_opinion")
    if not agree:
        ctx.count("second_opinion_disagreements")
        ctx.notes.setdefault("second_opinion_examples", [])
        if len(ctx.notes["second_opinion_examples"]) < 3:
            ctx.notes["second_opinion_examples"].append({"output": out[:400]})


from ..mutate import mutate_pair  # noqa: E402


def _all_tags(x, out=None):
    out = [] if out is None else out
    if isinstance(x, ht.Tag):
        out.append(x)
        for c in list(x.children):
            _all_tags(c, out)
    elif isinstance(x, ht.TagList):
        for c in list(x):
            _all_tags(c, out)
    return out


def check_mutation_history(ctx, r):
    """The tree after public-API mutations is a tree like any other: render, mutate, render again."""
    import copy as _c

    r = gen.unshare(r)
    live = gen.build(r)
    live.get_html_string()  # first rendering (a cache filled here must not survive the mutations)
    # what tagify() returned is another tree: scribbling all over it shows nowhere in the tree it was made from
    twin = live.tagify()
    for t_ in _all_tags(twin):
        t_.attrs["data-only-on-the-tagified-tree"] = "1"
        t_.add_class("only-on-the-copy")
        t_.append("ONLY-ON-THE-COPY")
        t_.name = "renamed-copy"
    ctx.count("tagified_twins_scribbled_on")
    log = []
    for _ in range(ctx.rng.randint(1, 4)):
        m = mutate_pair(ctx.rng, live, r)
        if m:
            log.append(m)
        live.get_html_string(1, "\r\n")
    out = live.get_html_string()
    ctx.count("oracle.parse_back_after_mutation")
    wit = {"recipe_after_mutation": r, "mutations": log, "output": out[:2000]}
    try:
        forest = [n for n in tokenizer.build_tree(tokenizer.tokenize(out)) if isinstance(n, tokenizer.Node) or n[1].strip()]
        if len(forest) != 1:
            raise Mismatch("root-structure", "not a single root")
        compare(forest[0], r, " \t\r\n\f")
    except tokenizer.Forged as f:
        ctx.violation("stale-after-mutation:forged", "after %s: %s" % (log, f), wit)
    except Mismatch as mm:
        ctx.violation("stale-after-mutation:" + mm.key, "after mutations %s the rendering does not parse back to the mutated tree: %s" % (log, mm), wit)
    for m in log:
        ctx.state("mutations_between_renderings", m)


def check_saved_twice(ctx, rng):
    """A static-site workflow: save a page, change the tree so that the document keeps its length (other text of the same length,
    another attribute value of the same length, two children swapped, an element renamed h1 -> h2), save again to the SAME path:
    the file is the second tree."""
    import os
    import shutil
    import tempfile

    d = tempfile.mkdtemp(prefix="hv-c01-")
    try:
        f = os.path.join(d, "page.html")
        words = ["alpha", "bravo", "delta", "gamma", "omega"]
        a, b = rng.sample(words, 2)
        r = gen.TAG("div", gen.TAG("h1", gen.T(a), attrs=[["title", {"t": "str", "s": a}]]), gen.TAG("p", gen.T("one")), gen.TAG("p", gen.T("two")), attrs=[["id", {"t": "str", "s": "k1"}]])
        live = gen.build(r)
        via = rng.choice(["tag", "document", "list"])
        target = live if via == "tag" else ht.HTMLDocument(live) if via == "document" else ht.TagList(live)
        target.save_html(f)
        change = rng.choice(["text", "attr", "swap", "rename", "all"])
        h1 = live.children[0]
        if change in ("text", "all"):
            h1.children[0] = b
            r["c"][0]["c"][0]["s"] = b
        if change in ("attr", "all"):
            h1.attrs["title"] = b
            r["c"][0]["attrs"][0][1]["s"] = b
        if change in ("swap", "all"):
            live.children[1], live.children[2] = live.children[2], live.children[1]
            r["c"][1], r["c"][2] = r["c"][2], r["c"][1]
        if change in ("rename", "all"):
            h1.name = "h2"
            r["c"][0]["name"] = "h2"
        target.save_html(f)
        with open(f, encoding="utf-8") as fh:
            out = fh.read()
    finally:
        shutil.rmtree(d, ignore_errors=True)
    ctx.count("oracle.saved_twice")
    body = out[out.index("<body>") + 6:out.rindex("</body>")]
    wit = {"scenario": "saved twice", "via": via, "change": change, "output": body[:600]}
    try:
        forest = [n for n in tokenizer.build_tree(tokenizer.tokenize(body)) if isinstance(n, tokenizer.Node) or n[1].strip()]
        if len(forest) != 1:
            raise Mismatch("root-structure", "not a single root in <body>")
        compare(forest[0], r, " \t\r\n\f")
    except tokenizer.Forged as e:
        ctx.violation("stale-after-mutation:forged", "page saved twice: %s" % e, wit)
    except Mismatch as mm:
        ctx.violation("stale-after-mutation:" + mm.key, "the file written by the second save_html() is not the tree that was saved (%s changed): %s" % (change, mm), wit)


def replay(ctx, w):
    if w.get("scenario") == "saved twice":
        return
    if "recipe_after_mutation" in w:
        return
    check_case(ctx, w["recipe"], (0, "\n"))
    for ind in (1, 7):
        for eol in ("\r\n", ""):
            check_case(ctx, w["recipe"], (ind, eol))


def nontrivial(r):
    n_el = sum(1 for x in gen.walk(r) if x["k"] == "tag")
    hot = any(x["k"] == "text" and set(x["s"]) & set("&<>") for x in gen.walk(r))
    return n_el >= 3 and hot


def frame_contract(ctx):
    """Cheap contract on every Tag.get_html_string call (including internal recursion)."""
    def after(self, a, kw, token, res, exc):
        if exc is not None:
            return
        indent = a[0] if a else kw.get("indent", 0)
        pre = "  " * indent + "<" + self.name
        ok = res.startswith(pre) and (res.endswith("</" + self.name + ">") or res.endswith("/>"))
        if res.endswith("/>") and not res.endswith("</" + self.name + ">"):
            kids = [c for c in self.children if not isinstance(c, ht.MetadataNode)]
            ok = ok and self.name in gen.VOID and not kids
        if not ok:
            ctx.violation("frame-contract", "Tag.get_html_string of <%s> returned %r..%r" % (self.name, res[:40], res[-30:]),
                          {"name": self.name, "result": res[:500]})

    contracts.wrap_method(ht.Tag, "get_html_string", after=after, ctx=ctx, counter="contract.frame")


def _reinstall(ctx):
    escape.install(ctx)
    frame_contract(ctx)


def run(ctx):
    escape.install(ctx)
    frame_contract(ctx)
    try:
        _run(ctx)
    finally:
        contracts.unpatch_all()


def _run(ctx):
    rng = ctx.rng
    ctx.require("oracle.parse_back", 500)
    ctx.require("contract.frame", 1000)
    ctx.require("contract.html_escape", 1000)
    ctx.forbid("second_opinion_disagreements")
    if ctx.thorough and ctx.shard == 0:
        from .. import repotests

        contracts.unpatch_all()  # the plugin installs its own monitors in the pytest process
        repotests.run_under(ctx, ["frame"])
        _reinstall(ctx)

    # 1. one deterministic tree per catalogue name (HTML + SVG + custom), each void name childless and with children
    covered = set()
    i = 0
    for name in gen.HTML_TAG_NAMES + gen.CUSTOM_NAMES:
        for variant in ("childless", "kids"):
            i += 1
            if not ctx.mine(i):
                continue
            kids = [] if variant == "childless" else [gen.T("a<b"), gen.TAG("span", gen.T("&"), ws=False), {"k": "num", "v": 3}]
            if name in ("script", "style"):
                kids = [] if variant == "childless" else [gen.T("plain")]
            for ws in (True, False):
                r = gen.TAG(name, *kids, ws=ws, attrs=[["id", {"t": "str", "s": "q\"<"}], ["x", {"t": "true"}]])
                check_case(ctx, r)
                ctx.case(r, nontrivial=False)
            covered.add(name)
    for name in gen.SVG_TAG_NAMES:
        i += 1
        if not ctx.mine(i):
            continue
        r = gen.TAG(name, gen.T("t>"), gen.TAG("g", ws=True), ws=True, attrs=[["d", {"t": "str", "s": "M0 0"}]], svg=True)
        if name in ("script", "style"):
            r["c"] = [gen.T("plain")]
        check_case(ctx, r)
        ctx.case(r, nontrivial=False)
        covered.add("svg:" + name)
    ctx.notes["catalogue_names_covered"] = len(covered)
    for name in gen.VOID:
        ctx.state("void_forms", (name, "childless"))
        ctx.state("void_forms", (name, "with_children"))
        for kids in ([], [gen.T("x")], [gen.M()] if False else [gen.TAG("b", ws=False)]):
            r = gen.TAG(name, *kids, ws=rng.random() < 0.5, via_fn=False)
            check_case(ctx, r)
            ctx.case(r, nontrivial=False)

    # 2. degenerate shapes
    if ctx.shard == 0:
        chain = gen.T("deep&")
        for d in range(200 if ctx.thorough else 120):
            chain = gen.TAG("div" if d % 2 else "span", chain, ws=bool(d % 3))
        check_case(ctx, chain, (0, "\n"))
        wide = gen.TAG("ul", *[gen.TAG("li", gen.T("i%d<" % k)) for k in range(500)])
        check_case(ctx, wide, (1, "\n"))
        ctx.case(wide)
        ctx.count("degenerate_shapes", 2)
        # sizes beyond what ordinary documents reach: many siblings, many attributes, very long text and attribute values
        wider = gen.TAG("div", *[(gen.TAG("span", gen.T("s%d&" % k), ws=False) if k % 5 == 4 else gen.T("t%d<" % k)) for k in range(4300)], ws=True, how="extend")
        check_case(ctx, wider, (0, "\n"))
        check_case(ctx, gen.TAG("article", gen.TAG("section", *wider["c"][:2600], ws=True), ws=False), (1, "\r\n"))
        for nm in ("body", "html", "head", "div"):
            check_case(ctx, gen.TAG(nm, gen.T("in <%s>" % nm), gen.TAG("p", gen.T("x")), via_fn=False), "document")
        T_ = gen.T
        for root in (gen.TAG("html", gen.TAG("body", T_("b")), gen.TAG("head", gen.TAG("title", T_("t")), via_fn=False), via_fn=False, attrs=[["lang", {"t": "str", "s": "fr"}]]),
                     gen.TAG("html", gen.TAG("x-banner", T_("first")), gen.TAG("head", via_fn=False), gen.TAG("body", T_("b")), via_fn=False),
                     gen.TAG("html", T_("text first"), gen.TAG("head", gen.TAG("meta", attrs=[["name", {"t": "str", "s": "n"}]]), via_fn=False), gen.TAG("body"), via_fn=False),
                     gen.TAG("html", gen.TAG("body", T_("only a body")), via_fn=False), gen.TAG("html", via_fn=False), gen.TAG("html", T_("just text"), via_fn=False),
                     gen.TAG("body", T_("lone body"), gen.TAG("head", T_("a head inside a body")), attrs=[["class", {"t": "str", "s": "b"}]]),
                     gen.TAG("div", gen.TAG("head", T_("h")), gen.TAG("body", T_("b"))), gen.TAG("head", gen.TAG("title", T_("lone head")), via_fn=False)):
            check_case(ctx, root, "document_lone")
        many_attrs = gen.TAG("x-many", gen.T("k"), ws=False, via_fn=False,
                             attrs=[["data-a%d" % k, {"t": "str", "s": "v%d\"&" % k} if k % 4 else {"t": "num", "v": k}] for k in range(260)])
        check_case(ctx, many_attrs, (0, "\n"))
        long_text = gen.TAG("p", gen.T("lorem <ipsum> & " * 9000), gen.TAG("b", gen.T("x" * 150000), ws=False), ws=True,
                            attrs=[["title", {"t": "str", "s": "q\"uote' & " * 12000}]])
        check_case(ctx, long_text, (2, "\r\n"))
        ctx.count("degenerate_shapes", 3)

    for _ in range(ctx.budget(30, 3000)):
        ctx.guard(check_saved_twice, ctx, rng, witness={"scenario": "saved twice"})
    # 3. random trees
    sampled = False
    for _ in range(ctx.budget(4000, 320000)):
        depth = rng.choice([1, 2, 3, 4, 5, 6]) if not ctx.thorough else rng.choice([1, 2, 3, 4, 5, 6, 8, 10])
        r = gen.rand_tree(rng, depth=depth, max_children=rng.choice([2, 3, 5, 8]), kinds={"tag": 5, "text": 4, "num": 1, "list": 1})
        check_case(ctx, r)
        ctx.case(r, nontrivial=nontrivial(r))
        if rng.random() < 0.25:
            ctx.guard(check_mutation_history, ctx, r, witness={"recipe": r})
        for x in gen.walk(r):
            if x["k"] == "tag":
                ctx.state("names_seen", x["name"])
        if not sampled and nontrivial(r) and gen.size(r) < 14:
            ctx.sample({"recipe": r, "output": gen.build(r).get_html_string()})
            sampled = True
    ctx.notes["distinct_tag_names_in_random_trees"] = len(ctx.states.get("names_seen", ()))
    ctx.states.pop("names_seen", None)
