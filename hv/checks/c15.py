"""C15 - attribute names and values are normalised and merged in argument order.

The attribute reference model (hv.ref.attrs) is stepped alongside the live tag through
construction and later update / item-assignment histories and compared after every step;
consolidate_attrs is compared with direct construction."""

from __future__ import annotations

import itertools

from ..loader import ht
from ..ref.attrs import AttrModel, consume_value, norm_name
from ..attrprog import run_case
from .. import gen
from .c03 import S, HV, N, TRUE, NONE, FALSE

ID = "C15"
LEVEL = "exploration"
RULE = ("attribute programs: constructor with 0-4 positional dicts and 0-5 keywords over colliding raw names "
        "(x, x_, x__, _x, a_b, a-b, a__b, class_, for_, data_x_y, A_b, ...) and all value types, followed by 0-10 "
        "update / item assignments; all call shapes with <=2 (quick) / <=3 (thorough) (name,value,slot) triples over a "
        "6-name x 6-value x 3-slot grid enumerated; consolidate_attrs differential. non-trivial = at least two supplied "
        "values collide on one normalised name; distinct by program digest")
ASSUMPTIONS = ["when plain and HTML() values are merged only type and the C03 consumption rule are checked (the stored text is escaped)"]
SHARDS = {"quick": 1, "thorough": 16}

RAW_NAMES = ["x", "x_", "x__", "_x", "a_b", "a-b", "a__b", "class_", "class", "for_", "data_x_y", "A_b", "id", "style", "y", "_"]
GRID_NAMES = ["x", "x_", "x__", "a_b", "a-b", "_x"]
GRID_VALUES = [S("p q"), HV("h"), N(5), TRUE, NONE, S("")]


def compare(ctx, tag, model, wit, step):
    ctx.count("oracle.attr_model")
    items = list(tag.attrs.items())
    names = [k for k, _ in items]
    if names != model.names():
        ctx.violation("attr-names-or-order", "after %s: attribute names %r, model %r" % (step, names, model.names()), wit)
        return False
    if list(tag.attrs) != names or dict(tag.attrs) != dict(items):
        ctx.violation("attr-views-disagree", "list(attrs)/dict(attrs) disagree with items()", wit)
        return False
    for k, v in items:
        parts = model.items[k]
        if not isinstance(v, (str, ht.HTML)):
            ctx.violation("attr-value-type", "after %s: attribute %s holds %s" % (step, k, type(v).__name__), wit)
            return False
        want_html = AttrModel.is_html(parts)
        if isinstance(v, ht.HTML) != want_html:
            ctx.violation("attr-value-type", "after %s: attribute %s is %s, model says %s" % (step, k, type(v).__name__, "HTML" if want_html else "str"), wit)
            return False
        text = v.as_string() if isinstance(v, ht.HTML) else v
        kinds = {kk for kk, _ in parts if kk != "sep"}
        if kinds == {"plain", "html"}:
            why = consume_value(text, parts)
            if why:
                ctx.violation("attr-merge-mixed", "after %s: attribute %s=%r: %s" % (step, k, text[:60], why), wit)
                return False
        else:
            want = AttrModel.plain_text(parts)
            if text != want:
                ctx.violation("attr-value-merge", "after %s: attribute %s=%r, model %r" % (step, k, text[:60], want[:60]), wit)
                return False
    return True


def check_case(ctx, c):
    wit = {"case": c}
    ok = [True]

    def hook(tag, model, op):
        if ok[0]:
            ok[0] = compare(ctx, tag, model, wit, op["op"])

    try:
        tag, model = run_case(c, hook)
    except Exception as e:
        ctx.violation("attr-supply-raises", "supplying attributes raised %r" % e, wit)
        return False
    if not ok[0]:
        return False
    # rendering shows the same names in the same order
    out = tag.get_html_string()
    pos = 0
    for k in model.names():
        j = out.find(" %s=\"" % k, pos)
        if j < 0:
            ctx.violation("attr-render-order", "attribute %s not rendered in model order" % k, dict(wit, output=out[:400]))
            return False
        pos = j + 1
    return True


def check_consolidate(ctx, c):
    """consolidate_attrs(*args, **kw) vs direct construction (constructor part of the case only)."""
    from ..attrprog import _d, _dup_free

    ctor = c["ctor"]
    dicts = [_d(_dup_free(a["d"]), ctx.rng.choice(["dict", "dict", "ordereddict", "userdictlike"])) for a in ctor.get("args", [])]
    if dicts and ctx.rng.random() < 0.3:
        dicts[0] = ht.Tag("x", dicts[0]).attrs  # a TagAttrDict taken from another tag
    kw = _d(_dup_free(ctor.get("kw", [])))
    kids = ["t", ht.span("s"), ["nested", ("tuple",)], None, 5, ht.TagList("a", "b")][: ctx.rng.randint(0, 6)]
    # interleave children and dicts
    args = []
    di, ki = 0, 0
    while di < len(dicts) or ki < len(kids):
        if di < len(dicts) and (ki >= len(kids) or ctx.rng.random() < 0.5):
            args.append(dicts[di])
            di += 1
        else:
            args.append(kids[ki])
            ki += 1
    wit = {"case": c, "n_children": len(kids)}
    ctx.count("oracle.consolidate")
    # results belong to the caller: changing one does not show up in a later call
    a0, c0 = ht.consolidate_attrs("only-a-child")
    a0["polluted"] = "1"
    c0.append("polluted")
    a1, c1 = ht.consolidate_attrs("only-a-child")
    if a1 != {} or c1 != ["only-a-child"]:
        ctx.violation("consolidate-result-shared", "consolidate_attrs() returned an object polluted by the caller of an earlier call: %r %r" % (a1, c1), wit)
        return False
    if ctx.rng.random() < 0.2:
        kw = dict(kw, _add_ws=ctx.rng.random() < 0.5)   # Tag's own option: consumed like Tag() does, never an attribute
    if ctx.rng.random() < 0.15:
        import collections
        import types
        args.insert(ctx.rng.randint(0, len(args)), ctx.rng.choice([collections.UserDict({"ud": "1"}), types.MappingProxyType({"mp": "1"}),
                                                                    collections.ChainMap({"cm": "1"})]))
    try:
        direct = ht.Tag("x", *args, **kw)
        direct_exc = None
    except Exception as e:
        direct, direct_exc = None, e
    try:
        attrs, children = ht.consolidate_attrs(*args, **kw)
    except Exception as e:
        if direct_exc is None or type(e) is not type(direct_exc):
            ctx.violation("consolidate-raises", "consolidate_attrs raised %r, direct construction %r" % (e, direct_exc), wit)
            return False
        return True
    if direct_exc is not None:
        ctx.violation("consolidate-accepts-what-tag-rejects", "consolidate_attrs accepted arguments for which Tag() raises %r" % direct_exc, wit)
        return False
    if type(attrs) is not dict or list(attrs.items()) != list(direct.attrs.items()):
        ctx.violation("consolidate-attrs-differ", "consolidate_attrs attributes %r, direct construction %r" % (list(attrs.items())[:6], list(direct.attrs.items())[:6]), wit)
        return False
    for (k, v), (_, dv) in zip(attrs.items(), direct.attrs.items()):
        if type(v) is not type(dv):
            ctx.violation("consolidate-attrs-differ", "value type of %s differs" % k, wit)
            return False
    nd = [a for a in args if not isinstance(a, dict)]
    for a in children:
        if isinstance(a, dict):
            ctx.violation("consolidate-children-altered", "an attribute mapping (%s) was returned among the children" % type(a).__name__, wit)
            return False
    if len(children) != len(nd) or any(a is not b for a, b in zip(children, nd)):
        ctx.violation("consolidate-children-altered", "children returned by consolidate_attrs are not the non-dict arguments unchanged", wit)
        return False
    rebuilt = ht.Tag("x", attrs, *children, _add_ws=kw.get("_add_ws", True))
    if not (rebuilt == direct and direct == rebuilt) or rebuilt.get_html_string() != direct.get_html_string():
        ctx.violation("consolidate-rebuild-differs", "Tag(n, attrs, *children) differs from direct construction", wit)
        return False
    return True


def check_no_aliasing(ctx, c):
    """A tag built from another tag's attribute map (or from a dict) has its own map; the source is not modified."""
    from ..attrprog import _d, _dup_free

    wit = {"case": c, "scenario": "attribute map reused as constructor argument"}
    src, _ = run_case(c)
    d = {"data-own": "1", "class": "dc"}
    d_before = dict(d)
    before = [(k, type(v).__name__, str(v)) for k, v in src.attrs.items()]
    mk = ctx.rng.choice([lambda a: ht.Tag("y", a), lambda a: ht.div(a), lambda a: ht.Tag("y", a, "child"), lambda a: ht.span(a, d)])
    b = mk(src.attrs)
    ctx.count("oracle.aliasing")
    if b.attrs is src.attrs:
        ctx.violation("attrs-map-aliased", "a tag built from another tag's .attrs shares the very same map object", wit)
        return False
    b.attrs["zz-new"] = "1"
    b.attrs.update({"class": "changed"}, id="other")
    b.add_class("q").add_style("k:v;")
    if b.attrs:
        b.attrs.pop(next(iter(b.attrs)))
    if [(k, type(v).__name__, str(v)) for k, v in src.attrs.items()] != before:
        ctx.violation("attrs-map-aliased", "changing the attributes of a tag built from another tag's .attrs changed the other tag", wit)
        return False
    if d != d_before:
        ctx.violation("attrs-argument-modified", "a dict passed as attribute argument was modified", wit)
        return False
    return True


def rand_value(rng):
    r = rng.random()
    if r < 0.35:
        v_ = S(rng.choice(["v", "p q", "", " lead", "a&b", "<x>", "50%", "q\"r"]))
        if rng.random() < 0.15:
            v_["sub"] = rng.choice([True, True, "fmt"])   # a str subclass is a string value (also one whose str()/format() say something else)
        return v_
    if r < 0.5:
        return HV(rng.choice(["h", "a&amp;b", "", "h i"]))
    if r < 0.65:
        n_ = N(rng.choice([0, 1, -2, 2.5, 1e21, True, False, 1234567.0, 0.30000000000000004, 10**12, -0.0, 1e-7]))
        if rng.random() < 0.2 and type(n_["v"]) in (int, float):
            n_["sub"] = True    # an int / float subclass (an IntEnum member, a length with a unit): written as its str() text
        return n_
    return rng.choice([TRUE, NONE, FALSE])


# names that mean something to browsers / frameworks: the rules do not depend on what a name means
SEMANTIC_NAMES = ["merge", "prepend", "args", "kwargs", "name", "children", "attrs", "x", "key", "val", "other", "add_ws", "deep", "replace", "append", "default", "data",
                  "aria_hidden", "aria-expanded", "aria_busy_", "aria_label", "data_toggle", "data-bs-target", "hidden", "checked", "disabled", "selected", "role", "tabindex",
                  "contenteditable", "draggable", "spellcheck", "translate", "autocomplete", "value", "title", "href", "src", "xmlns", "xlink:href", "xml_lang", "http_equiv",
                  "accept_charset", "className", "htmlFor", "on_click", "onclick", "style", "for", "class", "id", "name", "type", "async_", "defer", "is_", "slot", "part"]


def rand_case(rng):
    r_ = rng.random()
    names = RAW_NAMES if r_ < 0.5 else RAW_NAMES[:5] if r_ < 0.7 else SEMANTIC_NAMES

    def pairs(n):
        return [[rng.choice(names), rand_value(rng)] for _ in range(n)]

    args = [{"d": pairs(rng.randint(0, 4)), "as": rng.choice(["dict", "dict", "dict", "ordereddict", "userdictlike"])} for _ in range(rng.randint(0, 4))]
    kw = pairs(rng.randint(0, 5))
    ops = []
    for _ in range(rng.randint(0, 10) if rng.random() < 0.6 else 0):
        if rng.random() < 0.1:
            ops.append({"op": "continue_on_copy", "how": rng.choice(["copy", "tagify"])})
        elif rng.random() < 0.5:
            ops.append({"op": "update", "args": [{"d": pairs(rng.randint(0, 3))} for _ in range(rng.randint(0, 2))], "kw": pairs(rng.randint(0, 3))})
            if rng.random() < 0.15:
                ops[-1]["self_at"] = rng.randint(0, 2)
        else:
            ops.append({"op": "setitem", "name": rng.choice(names), "v": rand_value(rng)})
    return {"name": rng.choice(["div", "span", "x-y", "a", "img", "input", "label", "link", "script", "td", "option", "form", "button"]), "via": rng.choice(["fn", "Tag", "fn", "Tag", "consolidate"]), "ctor": {"args": args, "kw": kw}, "ops": ops,
            "children": rng.random() < 0.3, "after_failures": rng.randint(1, 5) if rng.random() < 0.15 else 0}


def collisions(c):
    groups = [a["d"] for a in c["ctor"]["args"]] + [c["ctor"]["kw"]]
    seen = {}
    for g in groups:
        for k, v in dict((k, v) for k, v in g).items():
            if v["t"] in ("none", "false") or (v["t"] == "num" and v["v"] is False):
                continue
            seen[norm_name(k)] = seen.get(norm_name(k), 0) + 1
    return any(n >= 2 for n in seen.values())


def replay(ctx, w):
    check_case(ctx, w["case"])
    check_consolidate(ctx, w["case"])


def run(ctx):
    rng = ctx.rng
    ctx.require("oracle.attr_model", 2000)
    ctx.require("oracle.consolidate", 300)
    # 0. sizes ordinary elements never reach: several hundred attributes, from four dicts and keywords, with collisions
    if ctx.shard == 0:
        for j in range(3):
            names_ = ["k%d_%s" % (k, "x_" if k % 9 == 0 else "y") for k in range(150 + 60 * j)]
            dicts_ = [{"d": [[n_, {"t": "str", "s": "d%d.%d" % (q, k)}] for k, n_ in enumerate(names_[q * 30: q * 30 + 80])], "as": ["dict", "ordereddict", "userdictlike", "dict"][q]} for q in range(4)]
            kw_ = [[n_, {"t": "num", "v": k} if k % 2 else {"t": "true"}] for k, n_ in enumerate(names_[::5])]
            big = {"name": "x-y", "via": "Tag", "ctor": {"args": dicts_, "kw": kw_},
                   "ops": [{"op": "update", "args": [{"d": [[n_, {"t": "str", "s": "u"}] for n_ in names_[10:140:3]]}], "kw": []}, {"op": "setitem", "name": names_[3], "v": {"t": "none"}}],
                   "children": True, "after_failures": 0}
            check_case(ctx, big)
            check_consolidate(ctx, big)
            ctx.case(big, nontrivial=True)
            ctx.count("many_attribute_elements")
    # 1. exhaustive grid of call shapes
    cells = [(n, v, slot) for n in GRID_NAMES for v in range(len(GRID_VALUES)) for slot in (0, 1, 2)]
    maxn = 3 if ctx.thorough else 2
    idx = 0
    for n in range(0, maxn + 1):
        for combo in itertools.product(cells, repeat=n):
            idx += 1
            if not ctx.mine(idx):
                continue
            d1 = [[nm, GRID_VALUES[v]] for nm, v, s in combo if s == 0]
            d2 = [[nm, GRID_VALUES[v]] for nm, v, s in combo if s == 1]
            kw = [[nm, GRID_VALUES[v]] for nm, v, s in combo if s == 2]
            c = {"name": "div", "via": "Tag", "ctor": {"args": [{"d": d1}, {"d": d2}], "kw": kw}, "ops": []}
            check_case(ctx, c)
            ctx.case(c, nontrivial=collisions(c))
            ctx.count("grid_shapes")
    ctx.exhaustive["call_shapes_le_%d_triples_over_6x6x3_grid" % maxn] = True
    ex = {"name": "div", "via": "fn", "ctor": {"args": [{"d": [["x_", S("a")], ["x", S("b")]]}], "kw": [["x__", N(1)], ["x", TRUE]]}, "ops": []}
    tag, _ = run_case(ex)
    ctx.sample({"case": ex, "attrs": [[k, str(v)] for k, v in tag.attrs.items()]})
    # 2. random programs
    for _ in range(ctx.budget(5000, 4000000)):
        c = rand_case(rng)
        check_case(ctx, c)
        if rng.random() < 0.3:
            check_consolidate(ctx, c)
        if rng.random() < 0.15:
            ctx.guard(check_no_aliasing, ctx, c, witness={"case": c})
        ctx.case(c, nontrivial=collisions(c))
        for op in c["ops"]:
            ctx.state("later_ops", op["op"])
        ctx.state("n_dicts_kw", (len(c["ctor"]["args"]), min(len(c["ctor"]["kw"]), 5)))
