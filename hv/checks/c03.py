"""C03 - attribute values are inert, single-line and decode to the original.

Monitors: escape contract on the live html_escape; boundary oracle: the opening tag is
cut out by the independent tokenizer (which itself rejects raw quotes, '<', '>', CR, LF in a
value and anything but ' name="value"' pairs), must carry exactly the model's attribute
names in order, and every raw value must consume part by part to the supplied plain
(attribute escape set) and HTML (verbatim) parts."""

from __future__ import annotations

import copy
import itertools

from ..loader import ht
from ..ref import tokenizer
from ..ref.attrs import consume_value
from ..mon import contracts, escape
from .. import gen
from ..attrprog import run_case
from .c02 import scalar_blocks

ID = "C03"
LEVEL = "exploration"
RULE = ("attribute-supplying programs (constructor dicts/keywords, update, item assignment, add_class, add_style; "
        "plain / HTML / number / True / None values, several values per name) with a hostile plain value substituted "
        "into every supply shape: all Unicode scalar values in 4096-blocks, all strings up to a length bound over "
        "& < > \" ' CR LF ; a, random hostile strings beyond. non-trivial = the hostile value contains one of the 7 "
        "escaped characters; distinct by (shape, value) digest")
ASSUMPTIONS = ["stdlib html.unescape defines character-reference decoding",
               "HTML() parts in this check are quote- and bracket-free so the opening tag stays tokenizable (hostile HTML() values are C04)"]
SHARDS = {"quick": 1, "thorough": 16}

X = {"t": "str", "s": "\0X\0"}  # substitution marker


def S(s):
    return {"t": "str", "s": s}


def HV(s):
    return {"t": "html", "s": s}


def N(v):
    return {"t": "num", "v": v}


TRUE = {"t": "true"}
NONE = {"t": "none"}
FALSE = {"t": "false"}


def case(name="div", args=(), kw=(), ops=(), via="fn", children=False):
    return {"name": name, "via": via, "ctor": {"args": [{"d": [list(p) for p in a]} for a in args], "kw": [list(p) for p in kw]},
            "ops": list(ops), "children": children}


def upd(args=(), kw=()):
    return {"op": "update", "args": [{"d": [list(p) for p in a]} for a in args], "kw": [list(p) for p in kw]}


SHAPES = {
    "kw_single": case(kw=[("title", X)]),
    "dict_single": case(args=[[("title", X)]]),
    "Tag_ctor": case(name="x-el", kw=[("data_v", X)], via="Tag"),
    "void_tag": case(name="img", kw=[("src", X)]),
    "with_children": case(kw=[("title", X)], children=True),
    "first_of_three": case(kw=[("a", X), ("b", S("2")), ("c", S("3"))]),
    "middle_of_three": case(kw=[("a", S("1")), ("b", X), ("c", S("3"))]),
    "last_of_three": case(args=[[("a", S("1"))]], kw=[("b", S("2")), ("c", X)]),
    "all_three": case(kw=[("a", X), ("b", X), ("c", X)]),
    "two_dicts_same": case(args=[[("class", X)], [("class", S("z"))]]),
    "two_dicts_same_rev": case(args=[[("class", S("z"))], [("class", X)]]),
    "dict_kw_same": case(args=[[("class", X)]], kw=[("class_", X)]),
    "plain_html": case(args=[[("class", X)]], kw=[("class_", HV("y&amp;1"))]),
    "consolidated_plain_html": case(args=[[("class", S("card"))], [("class", X)]], kw=[("class_", HV("y&amp;1"))], via="consolidate", children=True),
    "consolidated_single": case(kw=[("title", X)], via="consolidate"),
    "html_plain": case(args=[[("class", HV("y"))]], kw=[("class_", X)]),
    "plain_html_plain": case(args=[[("class", X)], [("class", HV("h&lt;"))]], kw=[("class", X)]),
    "html_plain_html": case(args=[[("k", HV("h1"))], [("k", X)], [("k", HV("h2"))]]),
    "num_true_mix": case(args=[[("x", X)], [("x", TRUE)]], kw=[("x", N(5))]),
    "true_alone_and_x": case(kw=[("hidden", TRUE), ("t", X), ("gone", NONE), ("nope", FALSE)]),
    "update_new": case(kw=[("id", S("i"))], ops=[upd(kw=[("title", X)])]),
    "update_replace": case(kw=[("title", S("old"))], ops=[upd(args=[[("title", X)]])]),
    "update_merge_in_call": case(kw=[("title", S("old"))], ops=[upd(args=[[("title", X)], [("title", HV("hh"))]])]),
    "setitem": case(kw=[("id", S("i"))], ops=[{"op": "setitem", "name": "data_q", "v": X}]),
    "setitem_replace_html": case(kw=[("k", HV("h"))], ops=[{"op": "setitem", "name": "k", "v": X}]),
    # the value being replaced was TRUSTED markup made of the very same characters: what is stored afterwards is the plain text
    "setitem_plain_over_equal_html": case(kw=[("title", HV("\0X\0")), ("id", S("i"))], ops=[{"op": "setitem", "name": "title", "v": X}]),
    "update_plain_over_equal_html": case(kw=[("data_v", HV("\0X\0"))], ops=[upd(kw=[("data_v", X)])], via="Tag", name="a-b"),
    "setitem_twice_same_plain": case(kw=[("title", X)], ops=[{"op": "setitem", "name": "title", "v": X}, {"op": "setitem", "name": "title", "v": HV("h")}, {"op": "setitem", "name": "title", "v": X}]),
    "add_class_append": case(kw=[("class_", S("c0"))], ops=[{"op": "add_class", "v": X, "prepend": False}]),
    "add_class_prepend": case(kw=[("class_", S("c0"))], ops=[{"op": "add_class", "v": X, "prepend": True}]),
    "add_class_fresh": case(ops=[{"op": "add_class", "v": X, "prepend": False}]),
    "add_class_onto_html": case(kw=[("class_", HV("hc"))], ops=[{"op": "add_class", "v": X, "prepend": False}]),
    "add_class_onto_html_prepend": case(kw=[("class_", HV("hc"))], ops=[{"op": "add_class", "v": X, "prepend": True}]),
    "add_html_class_onto_plain": case(kw=[("class_", X)], ops=[{"op": "add_class", "v": HV("hc"), "prepend": False}]),
    "add_html_class_onto_plain_prepend": case(kw=[("class_", X)], ops=[{"op": "add_class", "v": HV("hc"), "prepend": True}]),
    "add_class_twice_mixed": case(kw=[("class_", X)], ops=[{"op": "add_class", "v": HV("h1"), "prepend": False},
                                                            {"op": "add_class", "v": X, "prepend": True}]),
    "remove_other_class_html_arg": case(kw=[("class_", {"t": "str", "s": "\0X\0 keep gone"})], ops=[{"op": "remove_class", "v": HV("gone")}]),
    "remove_other_class_str_arg": case(args=[[("class", X)], [("class", S("zz"))]], ops=[{"op": "remove_class", "v": S(" zz ")}]),
    "remove_then_add": case(kw=[("class_", X)], ops=[{"op": "add_class", "v": S("tmp"), "prepend": True}, {"op": "remove_class", "v": HV("tmp")},
                                                       {"op": "add_class", "v": S("end"), "prepend": False}]),
    "style_plain_then_html": case(kw=[("style", X)], ops=[{"op": "add_style", "v": HV("color:red;"), "prepend": False}]),
    "style_html_then_plain": case(kw=[("style", HV("a:b;"))], ops=[{"op": "add_style", "v": {"t": "str", "s": "\0X\0;"}, "prepend": True}]),
    "style_append": case(ops=[{"op": "add_style", "v": {"t": "str", "s": "\0X\0;"}, "prepend": False},
                              {"op": "add_style", "v": S("b:c;"), "prepend": False}]),
}


def subst(obj, s):
    if isinstance(obj, dict):
        if obj.get("t") in ("str", "html") and "\0X\0" in obj["s"]:
            return dict(obj, s=obj["s"].replace("\0X\0", s))
        return {k: subst(v, s) for k, v in obj.items()}
    if isinstance(obj, list):
        return [subst(v, s) for v in obj]
    return obj


def check_case(ctx, c, label=""):
    from ..attrprog import shared_html_intact

    try:
        tag, model = run_case(c)
    except Exception as e:
        ctx.violation("attr-supply-raises", "%s: supplying attributes raised %r" % (label, e), {"case": c})
        return
    changed = shared_html_intact()
    if changed:
        ctx.violation("shared-html-constant-changed", "%s: an HTML() object used as an attribute value was changed: now differs from %r" % (label, changed[0]), {"case": c})
        return
    outs = [tag.get_html_string()]
    if ctx.rng.random() < 0.2:
        outs.append(str(tag))
    for out in outs:
        ctx.count("oracle.open_tag")
        wit = {"case": c, "output": out[:1500], "shape": label}
        try:
            toks = tokenizer.tokenize(out)
        except tokenizer.Forged as f:
            ctx.violation("attr-forges-markup", "%s: %s" % (label, f), wit)
            return
        t0 = toks[0]
        if t0[0] != "open" or t0[1] != c["name"]:
            ctx.violation("attr-forges-markup", "%s: output does not start with the open tag" % label, wit)
            return
        names = [a for a, _ in t0[2]]
        if names != model.names():
            ctx.violation("attr-set-differs", "%s: attributes %r, model %r" % (label, names, model.names()), wit)
            return
        n_open = sum(1 for t in toks if t[0] == "open")
        if n_open != 1:
            ctx.violation("attr-forges-markup", "%s: %d open tags in output" % (label, n_open), wit)
            return
        for (a, raw) in t0[2]:
            why = consume_value(raw, model.items[a])
            if why:
                ctx.violation(_classify(model.items[a]), "%s: attribute %s=\"%s\": %s" % (label, a, raw[:80], why), wit)
                return


def check_library_built(ctx, s, k=0):
    """Plain strings of the caller that the LIBRARY turns into attribute values: the URL base, library prefix and name of a
    dependency, and the values of its meta / stylesheet / script items."""
    from ..ref import charref

    variant = k % 4
    if "\x00" in s:
        s = s.replace("\x00", "")
    try:
        if variant == 0:
            dep = ht.HTMLDependency("lib", "1.0", source={"href": "https://cdn.example/base?" + s},
                                    script={"src": "f.js", "integrity": s, "defer": True, "nomodule": False, "crossorigin": None, "data-n": 5, "data-h": ht.HTML("a&amp;b")},
                                    stylesheet={"href": "f.css", "media": s, "disabled": True, "title": None})
            lp = "lib"
        elif variant == 1:
            dep = ht.HTMLDependency("n" + s, "1.0", source={"subdir": "some/dir"}, script=[{"src": "a.js"}, {"src": "b.js", "data-x": s}], stylesheet={"href": "c.css"})
            lp = "lib"
        elif variant == 2:
            dep = ht.HTMLDependency("lib", "1.0", source={"subdir": "some/dir"}, script={"src": "a.js"}, stylesheet={"href": "c.css", "title": s})
            lp = "pre" + s + "fix"
        else:
            dep = ht.HTMLDependency("lib", "1.0", meta=[{"name": "m" + s, "content": s}, {"name": "k", "content": "c", "data-extra": s}], source={"href": s}, script={"src": "z.js"})
            lp = None
        iv = k % 3 != 0
        d = dep.as_dict(lib_prefix=lp, include_version=iv)
        out = dep.as_html_tags(lib_prefix=lp, include_version=iv).get_html_string()
    except Exception as e:
        ctx.violation("attr-supply-raises", "building / rendering a dependency with value %r raised %r" % (s[:60], e), {"value": s[:300], "variant": variant})
        return
    ctx.count("oracle.library_built_attributes")
    # expected: the items as they were DEFINED (True = empty value, False/None = no attribute, HTML() verbatim), with the
    # URL-valued key taken from as_dict() and rel/type defaults as as_dict() reports them
    want = []
    for kind_, el, urlkey in (("meta", "meta", None), ("stylesheet", "link", "href"), ("script", "script", "src")):
        for given, reported in zip(getattr(dep, kind_), d[kind_]):
            items = []
            for k2, v2 in reported.items():
                val = given.get(k2, v2) if k2 != urlkey else v2
                if val is None or val is False:
                    continue
                items.append((k2, "" if val is True else val))
            want.append((el, items))
    wit = {"value": s[:300], "variant": variant, "output": out[:1500]}
    try:
        toks = [t for t in tokenizer.tokenize(out) if t[0] == "open"]
    except tokenizer.Forged as f:
        ctx.violation("attr-forges-markup", "dependency tags: %s" % f, wit)
        return
    if [(t[1], [a for a, _ in t[2]]) for t in toks] != [(n, [a for a, _ in items]) for n, items in want]:
        ctx.violation("attr-forges-markup", "dependency tags: elements / attribute names differ from the dependency's definition", wit)
        return
    for t, (n, items) in zip(toks, want):
        for (a, raw), (_, val) in zip(t[2], items):
            if isinstance(val, ht.HTML):
                why = None if raw == str(val) else "HTML() value not written verbatim"
            else:
                why = charref.check_escaped(raw, str(val), charref.ATTR_SET)
            if why:
                ctx.violation("attr-plain-not-inert", "dependency tag <%s %s=\"%s\">: %s" % (n, a, raw[:80], why), wit)
                return


def check_document_attrs(ctx, s, k=0):
    """Attribute arguments of a document reach the <html> element like attributes of any element: plain values escaped for an
    attribute, HTML() verbatim; a document argument REPLACES what the user's own <html> element has under that name."""
    from ..ref import charref

    variant = k % 7
    body = ht.tags.body("b")
    try:
        if variant == 0:
            doc, want = ht.HTMLDocument(ht.div("x"), title=s, lang="en"), [("title", s, False), ("lang", "en", False)]
        elif variant == 1:
            doc, want = ht.HTMLDocument(ht.tags.html(body, class_=ht.HTML("a&amp;b")), class_=s), [("class", s, False)]
        elif variant == 2:
            doc, want = ht.HTMLDocument(ht.tags.html(body, class_=s, style="k:v;"), style=ht.HTML("x:y;")), [("class", s, False), ("style", "x:y;", True)]
        elif variant == 3:
            doc, want = ht.HTMLDocument(ht.tags.html(body, title=ht.HTML("h")), data_v=s, title=s), [("title", s, False), ("data-v", s, False)]
        elif variant == 4:
            doc, want = ht.HTMLDocument(body, **{"data-a": s, "data-b": ht.HTML("m&amp;m")}), [("data-a", s, False), ("data-b", "m&amp;m", True)]
        elif variant == 5:
            # two spellings of one name among the document's arguments are merged in argument order, as on any element
            doc, want = ht.HTMLDocument(ht.div("x"), **{"class_": s, "lang": "en", "class": "zz", "data_x": "1", "data-x": s}), [("class", s + " zz", False), ("lang", "en", False), ("data-x", "1 " + s, False)]
        else:
            doc, want = ht.HTMLDocument(ht.tags.html(body, class_="own"), **{"class_": s, "class": ht.HTML("h")}), [("class", None, None)]
        out = doc.render()["html"]
    except Exception as e:
        ctx.violation("attr-supply-raises", "a document with attribute value %r raised %r" % (s[:60], e), {"value": s[:300], "variant": variant})
        return
    ctx.count("oracle.document_attributes")
    wit = {"value": s[:300], "variant": variant, "output": out[:800], "scenario": "document attributes"}
    try:
        toks = tokenizer.tokenize(out[len("<!DOCTYPE html>\n"):])
    except tokenizer.Forged as f:
        ctx.violation("attr-forges-markup", "document: %s" % f, wit)
        return
    t0 = toks[0]
    if t0[0] != "open" or t0[1] != "html" or [a for a, _ in t0[2]] != [n for n, _, _ in want]:
        ctx.violation("attr-set-differs", "document: <html> carries %r, expected %r" % ([a for a, _ in t0[2]] if t0[0] == "open" else t0, [n for n, _, _ in want]), wit)
        return
    if variant == 6:
        # plain + HTML() spellings of one name: the plain part escaped for an attribute, the HTML() part verbatim, one blank between
        from ..ref.attrs import AttrModel
        why = consume_value(t0[2][0][1], [("plain", s), ("sep", " "), ("html", "h")])
        if why:
            ctx.violation("attr-merge-plain-with-html", "document: <html class=\"%s\">: %s" % (t0[2][0][1][:80], why), wit)
        return
    for (a, raw), (_, val, is_html) in zip(t0[2], want):
        why = (None if raw == val else "HTML() value not written verbatim") if is_html else charref.check_escaped(raw, val, charref.ATTR_SET)
        if why:
            ctx.violation("attr-plain-not-inert" if not is_html else "attr-html-not-verbatim", "document: <html %s=\"%s\">: %s" % (a, raw[:80], why), wit)
            return


def _classify(parts):
    kinds = {k for k, _ in parts if k != "sep"}
    if kinds == {"plain", "html"}:
        return "attr-merge-plain-with-html"
    if kinds == {"html"}:
        return "attr-html-not-verbatim"
    return "attr-value-not-inert"


def replay(ctx, w):
    if "case" not in w:
        if w.get("scenario") == "document attributes":
            check_document_attrs(ctx, w["value"], w["variant"])
        return
    check_case(ctx, w["case"], w.get("shape", "replay"))


ALPHABET = "&<>\"'\r\n;a"

RAW_NAMES = ["id", "class_", "class", "style", "title", "data_x", "data-x", "x_", "x", "x__", "a_b", "a-b", "for_",
             "aria_label", "href", "value", "@click", ":b", "v.x", "A_b", "onclick"]


def rand_value(rng, hostile_p=0.6):
    r = rng.random()
    if r < hostile_p:
        v_ = {"t": "str", "s": gen.text_of(rng)}
        if rng.random() < 0.1:
            v_["sub"] = rng.choice([True, "fmt"])   # a str subclass (also one whose str() / format() are not its text) is a string value
        return v_
    if r < hostile_p + 0.12:
        v_ = HV(rng.choice(["h", "a&amp;b", "x y", "&lt;i&gt;", "50%", "q=1&r=2", "", " lead", "trail ", "\ttab\t", "  ", "a  b"]))
        if rng.random() < 0.5:
            v_["shared"] = True   # one HTML() constant object used for many elements
        return v_
    if r < hostile_p + 0.2:
        n_ = N(gen.number_of(rng))
        if rng.random() < 0.25:
            n_["sub"] = True    # an int / float subclass whose repr() is not its str()
        return n_
    return rng.choice([TRUE, NONE, FALSE, S("")])


def rand_case(rng):
    def pairs(n):
        return [[rng.choice(RAW_NAMES), rand_value(rng)] for _ in range(n)]

    args = [{"d": pairs(rng.randint(0, 3))} for _ in range(rng.randint(0, 3))]
    kw = pairs(rng.randint(0, 4))
    ops = []
    for _ in range(rng.randint(0, 4)):
        o = rng.choice(["update", "setitem", "add_class", "add_style", "remove_class", "update", "setitem", "add_class", "add_style", "remove_class", "continue_on_copy"])
        if o == "continue_on_copy":
            ops.append({"op": o, "how": rng.choice(["copy", "tagify"])})
            continue
        if o == "update":
            ops.append({"op": "update", "args": [{"d": pairs(rng.randint(0, 2))} for _ in range(rng.randint(0, 2))],
                        "kw": pairs(rng.randint(0, 2))})
        elif o == "setitem":
            ops.append({"op": "setitem", "name": rng.choice(RAW_NAMES), "v": rand_value(rng)})
        elif o == "remove_class":
            tok = rng.choice(["k", "h", "x", "y", "hello", "foo", "w-[100px]", "a?", "*", "h*", "[hk]", "hell?", "w[or]ld", "fo\\o", "(x)", "x|y", "^x", "x$", ".", "h.llo"])
            ops.append({"op": "remove_class", "v": rng.choice([S, HV])(rng.choice([tok, " " + tok, tok + "\n"]))})
        elif o == "add_class":
            v = rand_value(rng)
            if v["t"] in ("num", "true", "false"):
                v = S("k")
            ops.append({"op": "add_class", "v": v, "prepend": rng.random() < 0.5})
        else:
            v = rand_value(rng)
            if v["t"] in ("str", "html"):
                v = {"t": v["t"], "s": v["s"] + ";"}
            else:
                v = S("a:b;")
            ops.append({"op": "add_style", "v": v, "prepend": rng.random() < 0.5})
    name = rng.choice(["div", "span", "img", "input", "x-y", "a", "svg:g"])
    return {"name": name, "via": rng.choice(["fn", "Tag", "fn", "Tag", "consolidate"]), "ctor": {"args": args, "kw": kw}, "ops": ops,
            "children": rng.random() < 0.3, "after_failures": rng.randint(1, 5) if rng.random() < 0.15 else 0}


def run(ctx):
    escape.install(ctx)
    try:
        _run(ctx)
    finally:
        contracts.unpatch_all()


def _run(ctx):
    rng = ctx.rng
    ctx.require("contract.html_escape.attr", 500)
    ctx.require("oracle.open_tag", 1000)
    shapes = list(SHAPES)
    tag, _ = run_case(subst(SHAPES["plain_html_plain"], "a\"b"))
    ctx.sample({"shape": "plain_html_plain", "value": "a\"b", "output": tag.get_html_string()})

    # 1. per-code-point blocks through every shape
    for bi, block in enumerate(scalar_blocks()):
        if not ctx.mine(bi):
            continue
        use = shapes if ctx.thorough else [shapes[(bi + k * 5) % len(shapes)] for k in range(4)]
        for sh in use:
            check_case(ctx, subst(SHAPES[sh], block), sh)
            ctx.case(dg="blk%d/%s" % (bi, sh))
            ctx.state("shape_x_class", (sh, "block"))
        ctx.count("codepoint_blocks")
    ctx.exhaustive["unicode_scalar_values_in_blocks_as_attribute_values"] = True

    # 2. exhaustive short strings over the attribute alphabet
    maxlen = 5 if ctx.thorough else 3
    idx = 0
    for L in range(0, maxlen + 1):
        for tup in itertools.product(ALPHABET, repeat=L):
            idx += 1
            if not ctx.mine(idx):
                continue
            s = "".join(tup)
            if L >= 4:
                use = [shapes[(idx + k * 11) % len(shapes)] for k in range(5)]
            else:
                use = shapes
            for sh in use:
                check_case(ctx, subst(SHAPES[sh], s), sh)
                ctx.case(nontrivial=bool(set(s) & set("&<>\"'\r\n")), dg=sh + "\0" + s)
            ctx.count("short_strings")
    ctx.exhaustive["strings_len_le_%d_over_9_char_attr_alphabet" % maxlen] = True
    for sh in shapes:
        ctx.state("shape_x_class", (sh, "short"))

    # 2b. values the library itself turns into attributes (dependency tags)
    k_ = 0
    for L in range(0, 3):
        for tup in itertools.product(ALPHABET, repeat=L):
            for v_ in range(4):
                k_ += 1
                if ctx.mine(k_):
                    check_library_built(ctx, "".join(tup), k_)
    for _ in range(ctx.budget(400, 200000)):
        k_ += 1
        check_library_built(ctx, gen.text_of(rng, rng.choice(["word", "meta", "markup", "ws", "nl", "exotic", "mixed", "empty", "backslash"])), k_)
    ctx.require("oracle.library_built_attributes", 300)
    for L in range(0, 3):
        for tup in itertools.product(ALPHABET, repeat=L):
            for v_ in range(5):
                k_ += 1
                if ctx.mine(k_):
                    check_document_attrs(ctx, "".join(tup), k_)
    for _ in range(ctx.budget(300, 150000)):
        k_ += 1
        check_document_attrs(ctx, gen.text_of(rng, rng.choice(["word", "meta", "markup", "ws", "nl", "exotic", "mixed", "empty", "backslash"])), k_)

    # 2c. sizes ordinary elements never reach: hundreds of attributes from several sources (some names colliding), very long values
    if ctx.shard == 0:
        for j in range(3):
            names_ = ["data_n%d" % k for k in range(130 + 40 * j)]
            a1 = [(n_, S("v%d \"&<" % k) if k % 5 else HV("h%d&amp;" % k)) for k, n_ in enumerate(names_[:90])]
            a2 = [(n_, S("w%d'\r\n" % k)) for k, n_ in enumerate(names_[60:])]       # 30 names collide with the first dict
            kw_ = [(n_, N(k) if k % 3 else S("kw & %d" % k)) for k, n_ in enumerate(names_[::7])] + [("title", S("long \"<&>' " * (9000 + j)))]
            big = case(name="x-big", args=[a1, a2], kw=kw_, ops=[upd(kw=[("title", S("t&" * 60000))]), {"op": "add_class", "v": S("c1 c2"), "prepend": False}], via="Tag")
            check_case(ctx, big, "many-attributes")
            ctx.case(big)
            ctx.count("many_attribute_elements")

    # 3. random hostile values into shapes, and fully random programs
    for _ in range(ctx.budget(4000, 3000000)):
        if rng.random() < 0.5:
            sh = rng.choice(shapes)
            cls = rng.choice(["word", "meta", "markup", "ws", "nl", "exotic", "mixed", "empty", "long", "backslash", "backslash"])
            s = gen.text_of(rng, cls)
            c = subst(SHAPES[sh], s)
            check_case(ctx, c, sh)
            ctx.case(nontrivial=bool(set(s) & set("&<>\"'\r\n")), dg=sh + "\0" + s)
            ctx.state("shape_x_class", (sh, cls))
        else:
            c = rand_case(rng)
            check_case(ctx, c, "random")
            ctx.case(c)
            ctx.count("random_programs")
            for op in c["ops"]:
                ctx.state("ops_seen", op["op"])
