"""C07 - metadata nodes leave no trace in the markup (metamorphic, exact)."""

from __future__ import annotations

import copy
import itertools

from ..loader import ht
from ..ref import deps as refdeps
from .. import gen, layoutgen as lg

ID = "C07"
LEVEL = "exploration"
RULE = ("metadata-free base trees (valid and block-in-inline nestings; special shapes: void tag, empty block, single text "
        "child, first/last in list) x subsets of insertion points (ALL 2^n subsets when n<=10, 64 random subsets otherwise) "
        "x inserted kind (MetadataNode, HTMLDependency, head_content, 1-3 in a row); rendering via Tag/TagList.get_html_string "
        "(several indent/eol), str() and render() must be byte-identical to the base. A case is (base, subset); non-trivial = "
        "subset non-empty; distinct by (base, subset, kinds) digest")
ASSUMPTIONS = ["metamorphic relation only: the base rendering itself is judged by C01/C05/C06"]
SHARDS = {"quick": 1, "thorough": 16}

W = {"block": 4, "inline": 4, "void_inline": 1, "void_block": 1, "text": 4, "html": 1, "obj": 1, "meta": 0, "dep": 0}


def insertion_points(r, path=()):
    pts = []
    if r["k"] in ("tag", "list"):
        for i in range(len(r["c"]) + 1):
            pts.append((path, i))
        for i, c in enumerate(r["c"]):
            pts.extend(insertion_points(c, path + (i,)))
    return pts


def insert(r, points, makers):
    """points: list of (path, index); returns a deep copy of r with metadata inserted."""
    r = copy.deepcopy(r)
    # apply deepest/rightmost first so indices stay valid
    order = sorted(zip(points, makers), key=lambda pm: (pm[0][0], pm[0][1]), reverse=True)
    for (path, idx), mk in order:
        node = r
        for p in path:
            node = node["c"][p]
        node["c"][idx:idx] = mk
    return r


def meta_maker(rng, counter):
    out = []
    # (now and then a whole pile at one place: a container that carries every dependency of a page)
    for _ in range(rng.choice([1] * 14 + [2, 2, 2, 3, 3, 5, 13, 16, 30])):
        k = rng.choice(["meta", "dep", "dep", "headc"])
        counter[0] += 1
        if k == "meta":
            out.append({"k": "meta", "repr": True} if rng.random() < 0.3 else {"k": "meta", "resource": True} if rng.random() < 0.3 else {"k": "meta", "singleton": True} if rng.random() < 0.3 else {"k": "meta"})
        elif k == "dep":
            d = {"k": "dep", "name": rng.choice(["da", "db", "dc", "dd"]), "version": rng.choice(["1.0", "1.9", "1.10", "2.0"]),
                 "script": [{"src": "s%d.js" % counter[0]}]}
            src = rng.random()
            if src < 0.3:
                d["source"] = {"href": "https://cdn.example/" + d["name"]}
            elif src < 0.5:
                d["source"] = {"subdir": "some/dir"}
            if rng.random() < 0.3:
                d["stylesheet"] = {"href": "c%d.css" % counter[0]}
            if rng.random() < 0.3:
                d["head"] = [gen.TAG("title", gen.T("dh%d" % counter[0]))]
            if rng.random() < 0.3:
                d["sub"] = True    # an instance of a user subclass (one of them with a constructor signature of its own)
            out.append(d)
        else:
            out.append({"k": "headc", "c": [gen.TAG("title", gen.T("hc%d" % rng.randint(1, 3)))]})
    return out


VARIANTS = [(0, "\n"), (2, "\r\n"), (1, ""), (3, "@@")]


def renderings(obj, is_list):
    outs = []
    for ind, eol in VARIANTS:
        outs.append(obj.get_html_string(ind, eol))
    outs.append(str(obj))
    outs.append(obj.render()["html"])
    outs.append(obj._repr_html_())
    outs.append(repr(obj))
    outs.append(repr([obj]))
    outs.append(format(obj))
    # a whole document, minus what the dependencies themselves contribute to <head> (listing line and their own tags come
    # after the user's head content): charset line, user head content and everything outside <head> must not change
    import re as _re
    outs.append(_re.sub(r"\s*<script type=\"application/html-dependencies\">.*?(?=\s*</head>)", "", ht.HTMLDocument(obj).render()["html"], flags=_re.S))
    # the same content as a dependency's head= markup: what as_dict() and the JSON serialisation report (in both
    # dependency render modes) is markup only
    import htmltools as _h
    hd = ht.HTMLDependency("view-dep", "1.0", head=(obj if is_list else ht.TagList(obj)))
    outs.append(repr(hd.as_dict()["head"]))
    outs.append(hd.serialize_to_script_json().get_html_string())
    old_mode = _h.html_dependency_render_mode
    _h.html_dependency_render_mode = "json"
    try:
        outs.append(repr(hd.as_dict()["head"]))
        outs.append(hd.serialize_to_script_json(indent=2).get_html_string())
    finally:
        _h.html_dependency_render_mode = old_mode
    if not is_list:
        outs.append(ht.TagList(obj).get_html_string())
        outs.append(ht.TagList("x", obj, "y").get_html_string(1))
    else:
        outs.append(obj.get_html_string(0, "\n", add_ws=False))
    return outs


def dep_key(d):
    return (d.name, str(d.version))


def expected_deps(r2):
    seq = refdeps.collect(r2)
    items = []
    for d in seq:
        if d["k"] == "dep":
            items.append((d["name"], d["version"], d))
        else:
            live = gen.build(d)
            items.append((live.name, str(live.version), d))
    res = refdeps.resolve(items)
    return [(n, str(ht.HTMLDependency(n, v).version)) for n, v, _ in res]


def check_case(ctx, base, points, makers, base_outs=None, route="ctor"):
    try:
        return _check_case(ctx, base, points, makers, base_outs, route)
    except Exception as e:
        ctx.violation("render-raises", "building/rendering raised %r" % e, {"base": base, "makers": makers})
        return False


def build_by_route(base, points, makers, route):
    """Different ways for the metadata to arrive in the tree."""
    if route == "ctor":
        return gen.build_root(insert(base, points, makers))
    if route == "tf":
        # a tagifiable may return a TagList of metadata, or a single bare metadata node
        wrapped = [[{"k": "tf", "ret": "list", "c": mk}] if len(mk) != 1 or sum(map(len, (m["k"] for m in mk))) % 2 else [{"k": "tf", "ret": "one", "c": mk}]
                   for mk in makers]
        return gen.build_root(insert(base, points, wrapped))
    live = gen.build_root(base)
    order = sorted(zip(points, makers), key=lambda pm: (pm[0][0], pm[0][1]), reverse=True)
    for (path, idx), mk in order:
        node = live
        for p in path:
            node = (node.children if isinstance(node, ht.Tag) else node)[p]
        kids = [gen.build(m) for m in mk]
        if route == "display":
            # the REPL route: values displayed inside `with tag:` are appended (only possible at the end of a tag)
            import sys
            target = node.children if isinstance(node, ht.Tag) else node
            if isinstance(node, ht.Tag) and idx == len(target) and node.prev_displayhook is None:
                old = sys.displayhook
                sys.displayhook = lambda v: None
                try:
                    with node:
                        for k in kids:
                            sys.displayhook(k)
                finally:
                    sys.displayhook = old
                node.prev_displayhook = None  # allow several displayed batches into the same tag in this harness
            else:
                for k in reversed(kids):
                    node.insert(idx, k)
        elif route == "insert":
            for k in reversed(kids):
                node.insert(idx, k)
        elif route == "slice":
            target = node.children if isinstance(node, ht.Tag) else node
            target[idx:idx] = kids
        else:  # setitem-then-reinsert: replace a neighbour by (metadata, neighbour) via item/slice assignment
            target = node.children if isinstance(node, ht.Tag) else node
            if idx < len(target):
                old = target[idx]
                target[idx] = kids[0]
                target[idx + 1:idx + 1] = kids[1:] + [old]
            else:
                target.extend(kids)
    return live


ROUTES = ["ctor", "ctor", "ctor", "insert", "insert", "slice", "setitem", "tf", "display", "display"]


def _check_case(ctx, base, points, makers, base_outs, route="ctor"):
    if route == "display":
        # a self-rendering object that is DISPLAYED is kept as HTML by the display hook (C17): it never enters the tree as
        # a metadata node, so this route uses plain metadata only
        makers = [[{k: v for k, v in m.items() if k != "repr"} for m in mk] for mk in makers]
    is_list = base["k"] == "list"
    expanding = any(x["k"] == "tf" for x in gen.walk(base))
    if base_outs is None:
        b_ = gen.build_root(base)
        base_outs = renderings(b_.tagify() if expanding else b_, is_list)
    r2 = insert(base, points, makers)
    obj2 = build_by_route(base, points, makers, route)
    if expanding and route != "tf":
        # the base itself holds tagifiable objects: every view is taken of the expanded tree (with and without the metadata)
        obj2 = obj2.tagify()
    ctx.state("arrival_routes", route)
    if route == "tf":
        # an un-expanded tree cannot be asked for markup directly: compare the views that expand first
        outs = list(base_outs)
        outs[4] = str(obj2)
        outs[5] = obj2.render()["html"]
        outs[6] = obj2._repr_html_()
        outs[7] = repr(obj2)
        outs[8] = repr([obj2])
        outs[9] = format(obj2)
    else:
        outs = renderings(obj2, is_list)
    ctx.count("oracle.metamorphic")
    wit = {"base": base, "points": [list(map(list, [p[0]])) + [p[1]] for p in points], "makers": makers, "route": route}
    for k, (a, b) in enumerate(zip(base_outs, outs)):
        if a != b:
            wit.update(view=k, base_output=a[:1200], with_metadata=b[:1200])
            ctx.violation("metadata-changes-markup", "rendering view #%d changes when metadata nodes are inserted" % k, wit)
            return False
    got = [dep_key(d) for d in obj2.render()["dependencies"]]
    want = expected_deps(r2)
    ctx.count("oracle.deps")
    if got != want:
        wit.update(got=got, want=want)
        ctx.violation("metadata-deps-differ", "reported dependencies %r, expected %r" % (got, want), wit)
        return False
    return True


def check_jsx_metadata(ctx, rng):
    """Metadata nodes among the children of a JSX component (or of a tag inside it) leave no trace in what is written for it."""
    from ..loader import jsx_mod

    Foo, Bar = jsx_mod.jsx_tag_create("Foo"), jsx_mod.jsx_tag_create("Bar")
    metas = [lambda: ht.MetadataNode(), lambda: gen.SubMeta(), lambda: ht.HTMLDependency("jd", "1.0", source={"subdir": "a"}, script={"src": "a.js"}),
             lambda: ht.head_content(ht.tags.title("jt"))]

    def kids(level, with_meta, plan):
        base = [ht.span("a"), "b", ht.div("c", "d") if level else ht.div("c", Bar("e", ht.tags.i("f")), "d")]
        if level == 0 and len(base[2].children) and with_meta:
            base[2] = ht.div(*_mix(["c", Bar(*_mix(["e", ht.tags.i("f")], plan, 2)), "d"], plan, 1))
        return _mix(base, plan, 0) if with_meta else base

    def _mix(items, plan, slot):
        out = list(items)
        for pos, which, sl in plan:
            if sl == slot:
                out.insert(min(pos, len(out)), metas[which]())
        return out

    plan = [(rng.randint(0, 3), rng.randrange(len(metas)), rng.randrange(3)) for _ in range(rng.randint(1, 4))]
    level = rng.randrange(2)
    wrap = rng.choice([lambda c: ht.div(c), lambda c: ht.TagList(c), lambda c: ht.span(c, "t"), lambda c: c])
    plain = str(wrap(Foo(*kids(level, False, plan), title="p")))
    got = str(wrap(Foo(*kids(level, True, plan), title="p")))
    ctx.count("oracle.jsx_metadata")
    if got != plain:
        ctx.violation("metadata-changes-html:jsx", "metadata nodes among the children of a JSX component change what is written for it",
                      {"plan": plan, "nested_component": level == 0, "got": got[-900:], "want": plain[-900:]})
        return False
    return True


def replay(ctx, w):
    pts = [(tuple(p[0]), p[1]) for p in w["points"]]
    check_case(ctx, w["base"], pts, w["makers"], None, w.get("route", "ctor"))


def special_bases(ids):
    T = lambda: lg.leaf("text", ids)
    return [
        gen.TAG("br", ws=False), gen.TAG("hr", ws=True), gen.TAG("img", ws=False, attrs=[["src", {"t": "str", "s": "u"}]]),
        gen.TAG("div"), gen.TAG("span", ws=False), gen.TAG("div", T()), gen.TAG("span", T(), ws=False),
        gen.TAG("div", {"k": "html", "s": "h1;"}), gen.TAG("div", {"k": "obj", "s": "o1;"}),
        gen.TAG("div", T(), T()), gen.TAG("div", gen.TAG("p", T()), T()), gen.TAG("div", T(), gen.TAG("p")),
        gen.TAG("div", gen.TAG("span", T(), ws=False), gen.TAG("span", T(), ws=False)),
        gen.TAG("span", gen.TAG("div", T()), T(), ws=False),
        gen.TAG("script", T()), gen.TAG("style", T(), T()),
        {"k": "list", "t": "taglist", "c": []}, {"k": "list", "t": "taglist", "c": [T()]},
        {"k": "list", "t": "taglist", "c": [gen.TAG("div"), T(), gen.TAG("span", ws=False)]},
        {"k": "list", "t": "taglist", "c": [T(), gen.TAG("p", T()), {"k": "obj", "s": "o2;"}]},
        gen.TAG("ul", gen.TAG("li", T()), gen.TAG("li", gen.TAG("b", T(), ws=False)), gen.TAG("li")),
        # documents' own structure: metadata next to / inside <html>, <head>, <body>
        gen.TAG("html", gen.TAG("head", gen.TAG("meta", attrs=[["charset", {"t": "str", "s": "utf-8"}]]), gen.TAG("title", T())), gen.TAG("body", T())),
        gen.TAG("html", gen.TAG("body", gen.TAG("p", T()))), gen.TAG("body", T(), gen.TAG("div", T())), gen.TAG("head", gen.TAG("title", T())),
        # content that itself contains empty lines / repeated line separators
        gen.TAG("div", {"k": "text", "s": "x\n\ny"}, gen.TAG("p", T())), gen.TAG("pre", {"k": "text", "s": "\n\nkeep\n\n"}, ws=False),
        gen.TAG("style", {"k": "text", "s": "a{}\n\n\nb{}"}, {"k": "text", "s": "\n\n"}), gen.TAG("div", {"k": "html", "s": "<i>h</i>\r\n\r\n"}, T()),
        gen.TAG("div", {"k": "text", "s": "@@@@"}, gen.TAG("p", {"k": "text", "s": "@@@@q"}), {"k": "obj", "s": "o@@@@"}),
        {"k": "list", "t": "taglist", "c": [{"k": "text", "s": "\n\n"}, gen.TAG("div", {"k": "text", "s": "a\n\n\nb"}, T())]},
        # visible children that are all of one kind (two or three of them), in block, inline and raw-text parents and in a list
        gen.TAG("div", {"k": "html", "s": "h2;"}, {"k": "html", "s": "h3;"}), gen.TAG("div", {"k": "html", "s": "h4;"}, {"k": "html", "s": "h5;"}, {"k": "html", "s": "h6;"}),
        gen.TAG("p", {"k": "obj", "s": "o3;"}, {"k": "obj", "s": "o4;"}), gen.TAG("span", {"k": "html", "s": "h7;"}, {"k": "html", "s": "h8;"}, ws=False),
        gen.TAG("div", T(), T(), T()), gen.TAG("div", {"k": "html", "s": "h9;"}, T(), {"k": "html", "s": "h10;"}),
        {"k": "list", "t": "taglist", "c": [{"k": "html", "s": "h11;"}, {"k": "html", "s": "h12;"}]}, {"k": "list", "t": "taglist", "c": [T(), T()]},
        gen.TAG("script", {"k": "html", "s": "h13;"}, {"k": "html", "s": "h14;"}),
        # text that ends / starts with blanks or tabs next to block elements
        gen.TAG("div", {"k": "text", "s": "Total: "}, gen.TAG("p", T())), gen.TAG("div", {"k": "text", "s": "x\t"}, gen.TAG("div"), {"k": "text", "s": " y"}),
        {"k": "list", "t": "taglist", "c": [{"k": "text", "s": "a "}, gen.TAG("p", T()), {"k": "text", "s": "\tb "}, gen.TAG("span", T(), ws=False)]},
        gen.TAG("span", {"k": "text", "s": "in "}, gen.TAG("div", T()), {"k": "text", "s": " out"}, ws=False),
        # raw-text elements whose several text children hold markup-significant characters
        gen.TAG("script", {"k": "text", "s": "if (a<b && c>d) {"}, {"k": "text", "s": "x&y; }"}), gen.TAG("style", {"k": "text", "s": "a>b{}"}, {"k": "text", "s": "c&d{}"}, {"k": "text", "s": "<!-- -->"}),
        gen.TAG("div", gen.TAG("script", {"k": "text", "s": "1<2"}, {"k": "text", "s": "3>2"}, ws=False), T()),
        # tagifiable objects (expanding to 0, 2, 3 nodes or to one) among the visible children: compared through the views that expand first
        gen.TAG("div", {"k": "tf", "ret": "list", "c": [gen.TAG("span", T(), ws=False), gen.TAG("span", T(), ws=False)]}, T()),
        gen.TAG("div", T(), {"k": "tf", "ret": "list", "c": []}), gen.TAG("p", {"k": "tf", "ret": "list", "c": [T(), gen.TAG("b", T(), ws=False), T()]}, gen.TAG("i", ws=False)),
        {"k": "list", "t": "taglist", "c": [{"k": "tf", "ret": "list", "c": [T(), T()]}, gen.TAG("div", T()), {"k": "tf", "ret": "one", "c": [gen.TAG("em", T(), ws=False)]}]},
        # children that arrive one by one through += (a bare string operand for text)
        gen.TAG("p", T(), T(), how="iadd_each"), gen.TAG("div", T(), T(), T(), how="iadd_each"), gen.TAG("div", {"k": "html", "s": "h15;"}, T(), T(), how="iadd_each"),
        gen.TAG("span", T(), T(), ws=False, how="iadd_each"),
    ]


def run(ctx):
    rng = ctx.rng
    ctx.require("oracle.metamorphic", 500)
    ctx.require("oracle.deps", 500)
    counter = [0]
    ids = lg.Ids()
    bases = [(b, True) for b in special_bases(ids)]
    for _ in range(ctx.budget(120, 12000)):
        ctx.guard(check_jsx_metadata, ctx, rng, witness={"what": "metadata among JSX children"})
    n_rand = ctx.budget(60, 12000)
    sampled = False
    bi = 0
    total = len(bases) + n_rand
    while bi < total:
        if bi < len(bases):
            base = bases[bi][0]
            if not ctx.mine(bi):
                bi += 1
                continue
        else:
            ids = lg.Ids()
            if rng.random() < 0.25:
                base = {"k": "list", "t": "taglist",
                        "c": [lg.rand_layout_tree(rng, ids, 2, valid=rng.random() < 0.6, kinds_w=W) for _ in range(rng.randint(0, 4))]}
            else:
                base = lg.rand_layout_tree(rng, ids, rng.choice([1, 2, 2, 3, 4]), valid=rng.random() < 0.6, kinds_w=W,
                                           root_kind=rng.choice(["block", "inline"]), max_children=3)
        bi += 1
        base = gen.unshare(base)  # positions are addressed by path: no node may sit at two paths
        for x_ in gen.walk(base):
            if x_.get("how") == "displayed":
                x_["how"] = "ctor"   # (displayed self-rendering metadata would become markup, see the display route below)
        pts = insertion_points(base)
        is_list = base["k"] == "list"
        b_ = gen.build_root(base)
        base_outs = renderings(b_.tagify() if any(x["k"] == "tf" for x in gen.walk(base)) else b_, is_list)
        n = len(pts)
        if n <= (10 if ctx.thorough else 8):
            subsets = itertools.chain.from_iterable(itertools.combinations(range(n), k) for k in range(0, n + 1))
            ctx.count("bases_with_all_subsets")
        else:
            subsets = [tuple(sorted(rng.sample(range(n), rng.randint(1, min(n, 6))))) for _ in range(64 if ctx.thorough else 24)]
            ctx.count("bases_with_sampled_subsets")
        if base["k"] == "tag" and base["name"] in ("html", "body", "head"):
            # the document's own structure: every single position x every kind of metadata node, one at a time
            singles = [{"k": "meta"}, {"k": "meta", "sub": True}, {"k": "dep", "name": "da", "version": "1.0", "script": [{"src": "one.js"}]},
                       {"k": "headc", "c": [gen.TAG("title", gen.T("hc1"))]}]
            for pt in pts:
                for mk in singles:
                    check_case(ctx, base, [pt], [[mk]], base_outs, "ctor")
                    ctx.count("document_structure_single_insertions")
        for sub in subsets:
            points = [pts[i] for i in sub]
            makers = [meta_maker(rng, counter) for _ in points]
            ok = check_case(ctx, base, points, makers, base_outs, rng.choice(ROUTES))
            ctx.case((base, sub, makers), nontrivial=bool(sub))
            for (path, idx) in points:
                node = base
                for p in path:
                    node = node["c"][p]
                nkids = len(node["c"])
                pos = "only" if nkids == 0 else "first" if idx == 0 else "last" if idx == nkids else "between"
                ctx.state("position_classes", (lg.kind_of(node) if node["k"] == "tag" else "list", pos))
            if not sampled and len(sub) == 2 and ok:
                r2 = insert(base, points, makers)
                ctx.sample({"base": base, "with_metadata": r2, "output": gen.build(r2).get_html_string()})
                sampled = True
