"""C14 - child lists hold only normalised nodes after any sequence of operations.

(a) class invariant on TagList, evaluated after every mutator (own and inherited) and on
the raising path (list unchanged after TypeError);  (b) model-based history checker: the
flatten model of the statement is stepped alongside the live object and compared after
every step (identity for objects, equality for strings)."""

from __future__ import annotations

import operator

from ..loader import ht, core
from ..ref import flatten as F
from ..mon import contracts
from .. import gen

ID = "C14"
LEVEL = "exploration"
RULE = ("histories of 1-30 child operations (construct via TagList/Tag/tag function, append(*xs), extend, insert(any index), "
        "+, reflected +, +=, slicing, *, *=, reflected *) with argument shapes over scalars, '', numbers, bools, None, "
        "lists/tuples/TagLists nested to depth 6, tags, HTML, dependencies, metadata, doubles and an invalid object "
        "(object, dict, bytes, set, range, complex, type) at a random depth. non-trivial = history has >=3 operations and at least "
        "one nested container argument; distinct by history digest")
ASSUMPTIONS = ["direct item assignment is monitored by the invariant but never driven with un-normalised values (outside the statement)"]
SHARDS = {"quick": 1, "thorough": 16}

MUTATORS = ["__init__", "append", "extend", "insert", "__iadd__", "__imul__", "__setitem__", "__delitem__", "pop", "remove",
            "clear", "reverse", "sort"]


def install_invariant(ctx):
    def before(self, a, kw):
        return list(getattr(self, "data", []))

    def after(self, a, kw, token, res, exc):
        ctx.count("contract.taglist_invariant")
        data = getattr(self, "data", None)
        if data is None:
            return
        if exc is not None:
            if isinstance(exc, TypeError) and not (len(data) == len(token) and all(x is y for x, y in zip(data, token))):
                ctx.violation("list-changed-by-failed-operation", "TagList changed although the operation raised TypeError",
                              {"before": [repr(x)[:60] for x in token], "after": [repr(x)[:60] for x in data]})
            return
        for el in data:
            if not F.is_node(el):
                ctx.violation(_bad_key(el), "TagList holds un-normalised element %r" % (el,), {"elements": [repr(x)[:60] for x in data]})
                return

    for m in MUTATORS:
        contracts.wrap_method(core.TagList, m, before=before, after=after, ctx=ctx)


def _bad_key(el):
    if el is None:
        return "stored-none"
    if isinstance(el, (int, float)):
        return "stored-number"
    if F.is_container(el):
        return "stored-container"
    return "stored-invalid-object"


# ------------------------------------------------------------------ arguments
def rand_arg(rng, depth=3, bad_at=None, level=0):
    """bad_at: depth level at which to place an invalid object (None = never)."""
    if bad_at is not None and level == bad_at:
        if rng.random() < 0.2:
            return {"k": "inst", "has": None}  # same class as the valid "inst" values, but without any protocol method
        return {"k": "bad", "t": rng.choice(["object", "dict", "bytes", "set", "range", "complex", "type", "fraction", "decimal", "bytearray", "memoryview", "frozenset", "function", "exception", "module", "badrepr", "badrepr", "tagfunction", "boundmethod", "strclass", "answers_everything", "no_rich_repr", "generator", "generator", "iterator", "map", "dictkeys", "dictitems", "enumerate"])}
    r = rng.random()
    if bad_at is not None or (depth > 0 and r < 0.3):
        n = rng.randint(0, 4)
        kids = [rand_arg(rng, depth - 1, None, level + 1) for _ in range(n)]
        if bad_at is not None:
            kids.insert(rng.randint(0, len(kids)), rand_arg(rng, depth - 1, bad_at, level + 1))
        return {"k": "list", "t": rng.choice(["list", "tuple", "taglist", "list", "tuple", "taglist", "listrepr", "tupletf"]) if bad_at is None else rng.choice(["list", "tuple", "listrepr"]), "c": kids}
    r = rng.random()
    if r < 0.22:
        return {"k": "text", "s": rng.choice(["", "a", "bcd", "x y", "<&>", "é"])}
    if r < 0.36:
        n_ = {"k": "num", "v": rng.choice([0, 1, -5, 2.5, 1e300, True, False, "nan"])}
        if n_["v"] not in (True, False, "nan") and rng.random() < 0.2:
            n_["proto"] = True      # an int / float subclass that also has _repr_html_ / tagify: still a number
        return n_
    if r < 0.48:
        return {"k": "none"}
    if r < 0.62:
        return gen.TAG(rng.choice(["div", "span", "br"]), *([{"k": "text", "s": "k"}] if rng.random() < 0.5 else []), ws=rng.random() < 0.5)
    if r < 0.70:
        return {"k": "html", "s": "<i>h</i>"}
    if r < 0.78:
        return {"k": "dep", "name": "d", "version": "1.0"}
    if r < 0.84:
        return {"k": "meta"}
    if r < 0.88:
        return {"k": "obj", "s": "<u>o</u>"}
    if r < 0.90:
        return {"k": "inst", "has": rng.choice(["tagify", "repr"])}
    if r < 0.93:
        return {"k": "mapcomp"}
    return {"k": "tf", "ret": "list", "c": [{"k": "text", "s": "p"}]}


def shape_of(a):
    k = a["k"]
    if k == "dup":
        return "same-container-x%d%s" % (a["n"], "/nested" if a["nest"] else "")
    if k == "list":
        d = _depth(a)
        return "%s/depth%d%s" % (a["t"], min(d, 6), "/bad" if _has_bad(a) else "")
    if k == "bad":
        return "bad:" + a["t"]
    if k == "inst":
        return "instance-level:" + str(a["has"])
    if k == "num":
        return "num:" + type(gen._num(a["v"])).__name__
    if k == "text":
        return "text:empty" if a["s"] == "" else "text"
    return k


def _depth(a):
    if a["k"] == "dup":
        return 1 + _depth(a["c"])
    if a["k"] != "list":
        return 0
    return 1 + max([_depth(c) for c in a["c"]] or [0])


def _has_bad(a):
    if a["k"] == "dup":
        return _has_bad(a["c"])
    if a["k"] == "inst":
        return a["has"] is None
    return a["k"] == "bad" or (a["k"] == "list" and any(_has_bad(c) for c in a["c"]))


def rand_history(rng, n_ops):
    def arg(allow_bad=True):
        if rng.random() < 0.06:
            # one container object supplied several times within the same argument
            inner = {"k": "list", "t": rng.choice(["list", "tuple", "taglist"]), "c": [rand_arg(rng, 1) for _ in range(rng.randint(1, 3))]}
            return {"k": "dup", "c": inner, "n": rng.choice([2, 3]), "nest": rng.random() < 0.5}
        bad = None
        if allow_bad and rng.random() < 0.18:
            bad = rng.choice([0, 0, 1, 2, 3])
        return rand_arg(rng, rng.choice([0, 1, 2, 3, 6]), bad)

    start = [arg(False) for _ in range(rng.randint(0, 4))]
    ops = []
    for _ in range(n_ops):
        o = rng.choice(["append", "append", "extend", "extend", "insert", "insert", "add", "radd", "iadd", "iadd", "slice", "mul", "imul", "rmul",
                        "reverse", "pop", "del_slice", "copy", "fork"])
        if o == "append":
            ops.append({"op": o, "args": [arg() for _ in range(rng.choice([1, 1, 2, 3]))]})
        elif o in ("extend", "add", "radd", "iadd"):
            r = rng.random()
            if r < 0.12:
                a = {"k": "text", "s": rng.choice(["", "bcd", "z"])}
            else:
                bad = rng.choice([1, 1, 2]) if rng.random() < 0.15 else None
                a = rand_arg(rng, rng.choice([1, 2, 3]), bad) if bad is not None else \
                    {"k": "list", "t": rng.choice(["list", "tuple", "taglist"]), "c": [arg(False) for _ in range(rng.randint(0, 4))]}
                if a["k"] != "list":
                    a = {"k": "list", "t": "list", "c": [a]}
            ops.append({"op": o, "arg": a})
        elif o == "insert":
            ops.append({"op": o, "i": rng.randint(-8, 8), "arg": arg()})
        elif o in ("slice", "del_slice"):
            ops.append({"op": o, "a": rng.choice([None, 0, 1, -1, 2, -3]), "b": rng.choice([None, 0, 2, -1, 5]), "c": rng.choice([None, None, 1, 2, -1])})
        elif o in ("reverse", "copy", "fork"):
            ops.append({"op": o})
        elif o == "pop":
            ops.append({"op": o, "i": rng.choice([-1, 0, 1, -2])})
        else:
            ops.append({"op": o, "n": rng.choice([0, 1, 2, 3, -1])})
    return {"via": rng.choice(["taglist", "taglist", "tag", "fn"]), "start": start, "ops": ops}


# ------------------------------------------------------------------ stepping
def _check_accepted(ctx, args, wit):
    for a in args:
        ctx.count("oracle.is_tag_child")
        if not ht.is_tag_child(a):
            ctx.violation("is_tag_child-rejects-" + type(a).__name__, "is_tag_child(%r) is False although the value was accepted as a child" % (a,), wit)
            return False
        if F.is_container(a):
            if not _check_accepted(ctx, list(a), wit):
                return False
    return True


def _compare(ctx, live, model, wit, step):
    ctx.count("oracle.model_compare")
    data = list(live)
    if not F.same(data, model):
        wit = dict(wit, step=step, live=[repr(x)[:60] for x in data], model=[repr(x)[:60] for x in model])
        key = "children-differ-from-flatten-model"
        for el in data:
            if not F.is_node(el):
                key = _bad_key(el)
        ctx.violation(key if step_op(step) != "iadd" or key == "children-differ-from-flatten-model" else "iadd-bypasses-normalisation",
                      "after step %s the children are not the flattening of the supplied arguments" % (step,), wit)
        return False
    for el in data:
        ctx.count("oracle.is_tag_node")
        if not ht.is_tag_node(el):
            ctx.violation("is_tag_node-rejects-stored-element", "is_tag_node(%r) is False for a stored element" % (el,), wit)
            return False
    return True


def _one_shot(ctx, built, salt):
    """extend()/+= accept any iterable of children: sometimes hand over a one-shot iterator instead of the container."""
    if isinstance(built, (list, tuple)) and (len(built) + salt) % 4 == 0:
        ctx.count("one_shot_iterables")
        kind = ((len(built) + salt) // 4 + len(built)) % 4
        if kind == 0:
            return iter(built)
        if kind == 1:
            return (x for x in built)
        if kind == 2:
            return map(lambda x: x, built)

        def busy():
            # an iterable that itself builds tags / lists while it is being consumed (re-entrancy of the flattening code)
            for x in built:
                ht.div("side effect", ["nested", ("deeper", ht.span("s"))], ht.TagList("t", None, 5))
                ht.TagList(["a", ["b"]]).extend(["c", ("d",)])
                yield x

        return busy()
    return built


def step_op(step):
    return step.split(":")[-1] if isinstance(step, str) else ""


def run_history(ctx, h):
    wit = {"history": h}
    supplied = []  # (container object given as an argument, snapshot of its elements at that time)
    forks = []     # (child list of a copy made on the way, what it held after its own additions)

    def note_supplied(objs):
        for o in objs:
            if isinstance(o, (list, ht.TagList)):
                supplied.append((o, list(o)))

    def supplied_untouched(step):
        for o, snap in supplied:
            now = list(o)
            if len(now) != len(snap) or any(a is not b for a, b in zip(now, snap)):
                ctx.violation("argument-container-altered", "after step %s a container that was passed as an argument has changed" % (step,), dict(wit, step=step))
                return False
        return True

    start = [gen.build(a) for a in h["start"]]
    note_supplied(start)
    try:
        model = F.flatten(start)
        expect_fail = False
    except F.Unsupported:
        expect_fail = True
    try:
        if h["via"] == "taglist":
            owner = None
            live = ht.TagList(*start)
        elif h["via"] == "tag":
            owner = ht.Tag("div", *start)
            live = owner.children
        else:
            owner = ht.div(*start)
            live = owner.children
    except TypeError:
        if not expect_fail:
            ctx.violation("valid-argument-rejected", "construction raised TypeError for supported arguments", wit)
        return
    if expect_fail:
        ctx.violation("invalid-argument-accepted", "construction accepted an unsupported argument", wit)
        return
    if not _check_accepted(ctx, start, wit) or not _compare(ctx, live, model, wit, "0:ctor"):
        return
    for c, snap in supplied:
        if c is live:
            ctx.violation("children-alias-argument", "the child list IS the TagList object that was passed as an argument", wit)
            return
        ctx.count("oracle.argument_aliasing")
        c.append("ARG-MUTATED-LATER")
        ok = _compare(ctx, live, model, wit, "0:ctor:after-mutating-an-argument")
        c.pop()
        if not ok:
            return
    ctx.state("op_x_shape", ("ctor:" + h["via"], "args%d" % min(len(start), 3)))
    for si, op in enumerate(h["ops"], 1):
        o = op["op"]
        step = "%d:%s" % (si, o)
        target = owner if (owner is not None and o in ("append", "extend", "insert")) else live
        before = list(model)
        # ---- build arguments
        if o == "append":
            built = [gen.build(a) for a in op["args"]]
            if len(live) and si % 5 == 0:
                # the very same objects that are already children, once more (nothing is de-duplicated)
                again = [x for x in list(live)[-3:]]
                built = built + again + [again]
                ctx.count("resupplied_existing_children")
            acc = built
            for a in op["args"]:
                ctx.state("op_x_shape", (o, shape_of(a)))
        elif o in ("extend", "iadd", "add", "radd", "insert"):
            built = gen.build(op["arg"])
            acc = [built]
            ctx.state("op_x_shape", (o, shape_of(op["arg"])))
        else:
            built, acc = None, []
            ctx.state("op_x_shape", (o, "n=%d" % op["n"] if "n" in op else o))
        # ---- model effect
        new_model = None
        try:
            if o == "append":
                m2 = model + F.flatten(built)
            elif o in ("extend", "iadd", "add", "radd"):
                if isinstance(built, str):
                    exp = [built]
                elif F.is_container(built):
                    exp = F.flatten(list(built))
                else:
                    raise F.Unsupported("not an iterable of children")
                if o in ("extend", "iadd"):
                    m2 = model + exp
                elif o == "add":
                    m2, new_model = model, model + exp
                else:
                    m2, new_model = model, exp + model
            elif o == "insert":
                m2 = list(model)
                m2[op["i"]:op["i"]] = F.flatten([built])
            elif o == "slice":
                m2, new_model = model, model[slice(op["a"], op["b"], op["c"])]
            elif o in ("mul", "rmul"):
                m2, new_model = model, model * op["n"]
            elif o == "imul":
                m2 = model * op["n"]
            elif o == "reverse":
                m2 = model[::-1]
            elif o == "pop":
                m2 = list(model)
                if m2:
                    try:
                        m2.pop(op["i"])
                    except IndexError:
                        pass
            elif o == "del_slice":
                m2 = list(model)
                del m2[slice(op["a"], op["b"], op["c"])]
            elif o == "copy":
                m2, new_model = model, list(model)
            elif o == "fork":
                m2 = model
            model_ok = True
        except F.Unsupported:
            model_ok = False
        # ---- live effect
        new_live = None
        try:
            if o == "append":
                target.append(*built)
            elif o == "extend":
                target.extend(_one_shot(ctx, built, si))
            elif o == "iadd":
                keep = live
                live += _one_shot(ctx, built, si)
                if live is not keep:
                    ctx.violation("iadd-not-in-place", "+= returned a different object", dict(wit, step=step))
                    return
            elif o == "add":
                new_live = live + _one_shot(ctx, built, si)
            elif o == "radd":
                new_live = _one_shot(ctx, built, si) + live
            elif o == "insert":
                target.insert(op["i"], built)
            elif o == "slice":
                new_live = live[slice(op["a"], op["b"], op["c"])]
            elif o == "mul":
                new_live = live * op["n"]
            elif o == "rmul":
                new_live = op["n"] * live
            elif o == "imul":
                live *= op["n"]
            elif o == "reverse":
                live.reverse()
            elif o == "pop":
                if len(live):
                    try:
                        live.pop(op["i"])
                    except IndexError:
                        pass
            elif o == "del_slice":
                del live[slice(op["a"], op["b"], op["c"])]
            elif o == "copy":
                import copy as _c
                new_live = _c.copy(live) if si % 2 else live.copy()
            elif o == "fork":
                # a copy of the element (or list) gets children of its own; neither side ever sees the other's
                import copy as _c
                base_ = owner if owner is not None else live
                plain_ = all(isinstance(x, (str, ht.Tag, ht.MetadataNode)) for x in live)
                twin = base_.tagify() if (plain_ and si % 3 == 0) else _c.copy(base_)
                tkids = twin.children if owner is not None else twin
                if si % 2:
                    twin.append("ONLY-ON-THE-COPY")
                    tkids.insert(0, "copy-first")
                else:
                    tkids += ["ONLY-ON-THE-COPY"]
                    twin.insert(0, "copy-first")
                ctx.count("oracle.forks")
                if len(tkids) != len(model) + 2 or tkids[0] != "copy-first" or tkids[-1] != "ONLY-ON-THE-COPY":
                    ctx.violation("children-differ-from-flatten-model", "step %s: the copy does not hold its own two additions around the copied children" % step, dict(wit, step=step))
                    return
                forks.append((tkids, list(tkids)))
            live_ok = True
        except TypeError:
            live_ok = False
        except Exception as e:
            ctx.violation("wrong-exception-type", "step %s raised %r instead of TypeError" % (step, e), dict(wit, step=step))
            return
        if live_ok and not model_ok:
            ctx.violation("iadd-bypasses-normalisation" if o == "iadd" else "invalid-argument-accepted",
                          "step %s accepted an unsupported argument" % step, dict(wit, step=step, live=[repr(x)[:60] for x in live]))
            return
        if not live_ok and model_ok:
            ctx.violation("valid-argument-rejected", "step %s raised TypeError for supported arguments" % step, dict(wit, step=step))
            return
        if not live_ok:
            ctx.count("oracle.rejections")
            if not _compare(ctx, live, before, wit, step + ":after-TypeError"):
                return
            continue
        model = m2
        if not _check_accepted(ctx, acc, dict(wit, step=step)):
            return
        if not _compare(ctx, live, model, wit, step):
            return
        if not supplied_untouched(step):
            return
        for tk, snap_ in forks:
            if len(tk) != len(snap_) or any(a is not b and a != b for a, b in zip(tk, snap_)):
                ctx.violation("children-differ-from-flatten-model", "after step %s the children of a COPY made earlier have changed" % step, dict(wit, step=step))
                return
        if o in ("append", "insert", "extend", "iadd", "add", "radd"):
            note_supplied(built if o == "append" else [built])
        # the child list must not alias an argument: changing the argument afterwards leaves the children alone
        if supplied and ctx.rng.random() < 0.15:
            c, snap = supplied[ctx.rng.randrange(len(supplied))]
            if c is not live:
                ctx.count("oracle.argument_aliasing")
                c.append("ARG-MUTATED-LATER")
                ok = _compare(ctx, live, model, wit, step + ":after-mutating-an-earlier-argument")
                c.pop()
                if not ok:
                    return
        if new_model is not None:
            if not isinstance(new_live, ht.TagList):
                ctx.violation("result-not-taglist", "step %s returned %s" % (step, type(new_live).__name__), dict(wit, step=step))
                return
            if not _compare(ctx, new_live, new_model, wit, step + ":result"):
                return
            if owner is None and ctx.rng.random() < 0.5:
                live, model = new_live, new_model


def replay(ctx, w):
    install_invariant(ctx)
    try:
        ctx.guard(run_history, ctx, (w.get("case") or w)["history"], witness=w)
    finally:
        contracts.unpatch_all()


def nontrivial(h):
    nested = any(a.get("k") == "list" and any(c["k"] == "list" for c in a["c"])
                 for op in h["ops"] for a in (op.get("args", []) + ([op["arg"]] if "arg" in op else [])))
    return len(h["ops"]) >= 3 and nested


def _reinstall(ctx):
    install_invariant(ctx)


def run(ctx):
    install_invariant(ctx)
    try:
        _run(ctx)
    finally:
        contracts.unpatch_all()


def _run(ctx):
    rng = ctx.rng
    ctx.require("contract.taglist_invariant", 1000)
    ctx.require("oracle.model_compare", 1000)
    ctx.require("oracle.is_tag_child", 500)
    ctx.require("oracle.rejections", 50)
    if ctx.thorough and ctx.shard == 0:
        from .. import repotests

        contracts.unpatch_all()  # the plugin installs its own monitors in the pytest process
        repotests.run_under(ctx, ["invariant"])
        _reinstall(ctx)
    # deterministic core cases
    fixed = [
        {"via": "taglist", "start": [], "ops": [{"op": "iadd", "arg": {"k": "list", "t": "list", "c": [{"k": "num", "v": 1}, {"k": "none"}, {"k": "list", "t": "list", "c": [{"k": "text", "s": "x"}]}]}}]},
        {"via": "taglist", "start": [{"k": "text", "s": "a"}], "ops": [{"op": "iadd", "arg": {"k": "text", "s": "bcd"}}]},
        {"via": "taglist", "start": [], "ops": [{"op": "iadd", "arg": {"k": "list", "t": "list", "c": [{"k": "bad", "t": "object"}]}}]},
        {"via": "taglist", "start": [{"k": "num", "v": 5}], "ops": [{"op": "append", "args": [{"k": "num", "v": 7}, {"k": "num", "v": 2.5}, {"k": "num", "v": True}]}]},
        {"via": "tag", "start": [{"k": "list", "t": "tuple", "c": [{"k": "list", "t": "taglist", "c": [{"k": "text", "s": "q"}, {"k": "none"}]}]}],
         "ops": [{"op": "insert", "i": -1, "arg": {"k": "list", "t": "list", "c": [{"k": "num", "v": 1}, {"k": "text", "s": "z"}]}},
                 {"op": "extend", "arg": {"k": "text", "s": "whole"}}]},
    ]
    # sizes ordinary use never reaches: thousands of items in one argument, containers nested a hundred levels deep, an
    # invalid object at the very end / bottom of such an argument
    def _nest(leaf, depth, kinds=("list", "tuple", "taglist")):
        r_ = leaf
        for d_ in range(depth):
            r_ = {"k": "list", "t": kinds[d_ % len(kinds)], "c": [{"k": "text", "s": "n%d" % d_}, r_, {"k": "none"}]}
        return r_
    wide_ = {"k": "list", "t": "list", "c": [{"k": "num", "v": k_} if k_ % 3 == 0 else {"k": "text", "s": "w%d" % k_} if k_ % 3 == 1 else {"k": "none"} for k_ in range(3500)]}
    fixed += [
        {"via": "taglist", "start": [{"k": "text", "s": "a"}], "ops": [{"op": "extend", "arg": wide_}, {"op": "insert", "i": 1700, "arg": wide_}, {"op": "iadd", "arg": wide_}]},
        {"via": "tag", "start": [wide_], "ops": [{"op": "append", "args": [wide_, {"k": "text", "s": "z"}]}, {"op": "insert", "i": -3, "arg": {"k": "text", "s": "y"}}]},
        {"via": "taglist", "start": [_nest({"k": "text", "s": "bottom"}, 120)], "ops": [{"op": "append", "args": [_nest({"k": "num", "v": 7}, 150, ("list", "tuple"))]}]},
        {"via": "tag", "start": [{"k": "text", "s": "keep"}], "ops": [{"op": "extend", "arg": {"k": "list", "t": "list", "c": wide_["c"] + [{"k": "bad", "t": "object"}]}},
                                                                   {"op": "append", "args": [_nest({"k": "bad", "t": "dict"}, 90, ("list", "tuple"))]},
                                                                   {"op": "append", "args": [{"k": "text", "s": "after"}]}]},
    ]
    for i, h in enumerate(fixed):
        if ctx.mine(i):
            ctx.guard(run_history, ctx, h, witness={"history": h})
            ctx.case(h, nontrivial=False)
    ctx.sample(fixed[4])
    for _ in range(ctx.budget(4000, 1200000)):
        h = rand_history(rng, rng.choice([1, 2, 3, 5, 8, 12, 20, 30]))
        ctx.guard(run_history, ctx, h, witness={"history": h})
        ctx.case(h, nontrivial=nontrivial(h))
