"""C06 - block layout follows the documented line and indentation rules.

Oracle: hv.ref.layout (written from the statement / docstring only); exact string
equality for validly nested trees, all indent values and eol strings."""

from __future__ import annotations

from ..loader import ht, core
from ..ref import layout
from ..mon import probe
from .. import gen, layoutgen as lg

ID = "C06"
LEVEL = "exploration"
RULE = ("validly nested trees over block/inline/void tags, text (incl. embedded newlines and edge whitespace), HTML(), "
        "_repr_html_ objects, metadata; every ordered pair of sibling kinds x parent kind x position generated "
        "deterministically, then random trees (depth<=8, fan-out<=12) with indent 0..9 and arbitrary eol strings; "
        "rendered via Tag.get_html_string, TagList.get_html_string(add_ws=True, and False for all-inline lists). "
        "non-trivial = tree has >=2 block tags and >=1 inline run next to a block; distinct by (recipe, indent, eol) digest")
ASSUMPTIONS = ["hv.ref.layout is a faithful reading of the statement and the Tag docstring",
               "content avoids characters that need escaping so the check does not pin a spelling of references (C01-C03 own escaping)"]
SHARDS = {"quick": 1, "thorough": 16}

EOLS = ["\n", "\n", "\r\n", "", "@@", " ", "<!-- eol -->\n", "\n\n", "\t"]


def nontrivial(r):
    blocks = sum(1 for x in gen.walk(r) if x["k"] == "tag" and x["ws"])
    mixed = False
    for x in gen.walk(r):
        if x["k"] in ("tag", "list"):
            ks = [layout.is_block(c) for c in layout.visible(x)]
            if True in ks and False in ks:
                mixed = True
    return blocks >= 2 and mixed


def check_case(ctx, r, indent, eol, add_ws=True):
    try:
        return _check_case(ctx, r, indent, eol, add_ws)
    except Exception as e:
        ctx.violation("render-raises", "building/rendering raised %r" % e, {"recipe": r, "indent": indent, "eol": eol, "add_ws": add_ws})
        return False


def _check_case(ctx, r, indent, eol, add_ws):
    obj = gen.build_root(r)
    wit = {"recipe": r, "indent": indent, "eol": eol, "add_ws": add_ws}
    if r["k"] == "list":
        if add_ws and (indent + len(eol)) % 2 == 0:
            got = obj.get_html_string(indent, eol)  # the documented default is add_ws=True
        else:
            got = obj.get_html_string(indent, eol, add_ws=add_ws)
        want = layout.list_str(r["c"], indent, eol, add_ws)
        how = "TagList.get_html_string"
    else:
        form = (indent * 3 + len(eol)) % 4
        got = (obj.get_html_string(indent, eol) if form == 0 else obj.get_html_string(indent=indent, eol=eol) if form == 1
               else obj.get_html_string(eol=eol, indent=indent) if form == 2 else obj.get_html_string(indent, eol=eol))
        want = layout.tag_str(r, indent, eol)
        how = "Tag.get_html_string"
    ctx.count("oracle.layout")
    if got != want:
        wit.update(got=got[:1500], want=want[:1500])
        ctx.violation(_classify(got, want), "%s(indent=%d, eol=%r) differs from the documented layout" % (how, indent, eol), wit)
        return False
    if indent == 0 and eol == "\n" and r["k"] == "tag" and ctx.rng.random() < 0.1 and not any(x.get("direct_only") for x in gen.walk(r)):
        # the other string views use the default layout
        s = str(obj)
        ctx.count("oracle.layout")
        if s != want:
            wit.update(got=s[:1500], want=want[:1500])
            ctx.violation("str-differs-from-layout", "str(tag) differs from the documented layout", wit)
            return False
    return True


def _classify(got, want):
    g = "".join(got.split())
    w = "".join(want.split())
    return "layout-whitespace" if g == w else "layout-content"


def check_after_mutations(ctx, r, indent, eol):
    """Layout of a tree that was rendered, changed through the public API, and rendered again."""
    from ..mutate import mutate_pair

    r = gen.unshare(r)
    live = gen.build_root(r)
    live.get_html_string(indent, eol)
    log = []
    for _ in range(ctx.rng.randint(1, 4)):
        m = mutate_pair(ctx.rng, live, r, benign=True)
        if m:
            log.append(m)
            if not layout.valid(r):
                return  # the mutation produced a block inside an inline tag: nothing is promised
            live.get_html_string(0, "\n")
    if not log:
        return
    got = live.get_html_string(indent, eol)
    want = layout.tag_str(r, indent, eol)
    ctx.count("oracle.layout_after_mutation")
    for m in log:
        ctx.state("mutations_between_renderings", m)
    if got != want:
        ctx.violation("stale-layout-after-mutation", "after mutations %s the layout is not that of the mutated tree" % log,
                      {"recipe_after_mutation": r, "mutations": log, "indent": indent, "eol": eol, "got": got[:1200], "want": want[:1200]})


def check_text_document(ctx, rng):
    """The text HTMLTextDocument inserts at its placeholder is a top-level list (listing, then the tags of every dependency) laid
    out by the sibling rule: nothing for a dependency that contributes no tags, adjacent raw head markup on one line."""
    deps = []
    for j in range(rng.randint(1, 6)):
        c = rng.random()
        name = "d%d" % j
        if c < 0.3:
            deps.append(ht.HTMLDependency(name, "1.0", source={"subdir": name}, all_files=True))     # ships files only
        elif c < 0.55:
            deps.append(ht.HTMLDependency(name, "2.0", head='<meta name="%s" content="1">' % name))    # raw head markup
        elif c < 0.7:
            deps.append(ht.HTMLDependency(name, "2.0", head=ht.TagList(ht.tags.title(name), "text " + name)))
        else:
            deps.append(ht.HTMLDependency(name, "1.%d" % j, source={"subdir": name}, script=[{"src": "a.js"}, {"src": "b.js"}][: rng.randint(1, 2)],
                                          stylesheet=[{"href": "s.css"}][: rng.randint(0, 1)], meta=[{"name": "m", "content": name}][: rng.randint(0, 1)]))
    lib = rng.choice(["lib", None, "x/y"])
    iv = rng.random() < 0.5
    got = ht.HTMLTextDocument("<html><head>@@DEPS@@</head><body></body></html>", deps=list(deps), deps_replace_pattern="@@DEPS@@").render(lib_prefix=lib, include_version=iv)["html"]
    items = ht.TagList(ht.Tag("script", ";".join("%s[%s]" % (d.name, d.version) for d in deps), type="application/html-dependencies"),
                       *[d.as_html_tags(lib_prefix=lib, include_version=iv) for d in deps])
    want = "<html><head>" + items.get_html_string() + "</head><body></body></html>"
    ctx.count("oracle.text_document_layout")
    wit = {"deps": [(d.name, bool(d.script), None if d.head is None else str(d.head)[:60]) for d in deps], "lib_prefix": lib, "include_version": iv}
    if got != want:
        ctx.violation("layout-differs:text-document", "the text inserted by HTMLTextDocument is not the sibling-rule layout of the listing and the dependency tags",
                      dict(wit, got=got[:900], want=want[:900]))
        return False
    if "\n\n" in got or "\n</head>" in got:
        ctx.violation("layout-differs:text-document", "blank line in the text inserted by HTMLTextDocument", dict(wit, got=got[:900]))
        return False
    return True


def replay(ctx, w):
    if "recipe_after_mutation" in w:
        return
    check_case(ctx, w["recipe"], w["indent"], w["eol"], w.get("add_ws", True))


def run(ctx):
    seen = set()

    def extract(loc):
        ch = loc.get("child")
        kind = "tag" if isinstance(ch, ht.Tag) else "obj" if hasattr(ch, "_repr_html_") and not isinstance(ch, (str, ht.HTML)) else "text"
        return (bool(loc.get("first_child")), bool(loc.get("prev_was_add_ws")), kind, bool(getattr(ch, "add_ws", False)))

    attached = probe.line_probe(core.TagList.get_html_string, "prev_or_current_add_ws = prev_was_add_ws", extract, seen.add)
    try:
        _run(ctx)
    finally:
        probe.detach_all()
    ctx.notes["probe_attached"] = attached
    for s in seen:
        ctx.state("layout_state_machine(first_child,prev_was_add_ws,kind,child.add_ws)", s)


def _run(ctx):
    rng = ctx.rng
    ctx.require("oracle.layout", 500)
    ids = lg.Ids()
    # 1. pairwise-exhaustive skeletons
    sk = lg.pair_skeletons(ids, rng)
    for i, (r, cell) in enumerate(sk):
        if not ctx.mine(i):
            continue
        assert layout.valid(r)
        for indent, eol in ((0, "\n"), (2, "\r\n"), (1, "")):
            check_case(ctx, r, indent, eol)
            ctx.case((r, indent, eol), nontrivial=nontrivial(r))
        ctx.state("pair_cells", cell)
        ctx.count("skeletons")
    ctx.exhaustive["ordered_sibling_kind_pairs_x_parent_x_position"] = True

    # deterministic extremes: deep nesting, large indent arguments, very wide sibling lists
    if ctx.shard == 0:
        ids2 = lg.Ids()
        chain = gen.TAG("p", lg.leaf("text", ids2), gen.TAG("em", lg.leaf("text", ids2), ws=False, via_fn=False), via_fn=False)
        for d in range(70):
            chain = gen.TAG("div", lg.leaf("text", ids2), chain, ws=True, via_fn=False) if d % 2 else gen.TAG("section", chain, lg.leaf("text", ids2), ws=True, via_fn=False)
        for indent, eol in ((0, "\n"), (45, "\n"), (3, "\r\n")):
            check_case(ctx, chain, indent, eol)
        kids = [lg.leaf("text", ids2) if i % 4 else gen.TAG("li", lg.leaf("text", ids2), ws=True, via_fn=False) for i in range(700)]
        check_case(ctx, gen.TAG("ul", *kids, ws=True, via_fn=False), 2, "\n")
        check_case(ctx, {"k": "list", "t": "taglist", "c": kids}, 41, "\n")
        ctx.count("extreme_shapes", 5)
        # ... and further out: 140 levels, indent arguments of 80 and 300, 2600 siblings
        for d in range(70):
            chain = gen.TAG("ul", chain, ws=True, via_fn=False) if d % 2 else gen.TAG("li", lg.leaf("text", ids2), chain, lg.leaf("text", ids2), ws=True, via_fn=False)
        for indent, eol in ((0, "\n"), (80, "\n"), (300, "\r\n")):
            check_case(ctx, chain, indent, eol)
        kids = [lg.leaf("text", ids2) if i % 5 == 1 else gen.TAG("em", lg.leaf("text", ids2), ws=False, via_fn=False) if i % 5 == 2 else gen.TAG("p", lg.leaf("text", ids2), ws=True, via_fn=False)
                for i in range(2600)]
        check_case(ctx, gen.TAG("section", *kids, ws=True, via_fn=False), 0, "\n")
        check_case(ctx, {"k": "list", "t": "taglist", "c": kids}, 120, "\n")
        ctx.count("extreme_shapes", 5)
        # a single text child of any length keeps its element on one line (raw-text elements included); an opening tag stays
        # on one line whatever the number of attributes
        many_attrs = [["data-a%d" % k, {"t": "str", "s": "v%d" % k}] for k in range(150)]
        for nm in ("script", "style", "p", "title", "pre"):
            for n_ in (65535, 65537, 200000):
                big = gen.TAG("section", gen.TAG(nm, {"k": "text", "s": "x" * n_}, ws=True, via_fn=False), gen.TAG(nm, {"k": "html", "s": "y" * n_}, ws=True, via_fn=False, attrs=many_attrs[:70]),
                              ws=True, via_fn=False)
                check_case(ctx, big, 1, "\n")
        for kids_ in ([], [lg.leaf("text", ids2)], [lg.leaf("text", ids2), gen.TAG("p", lg.leaf("text", ids2), ws=True, via_fn=False, attrs=many_attrs[:65])]):
            for indent, eol in ((0, "\n"), (3, "\r\n")):
                check_case(ctx, gen.TAG("div", *kids_, ws=True, via_fn=False, attrs=many_attrs), indent, eol)
        ctx.count("extreme_shapes", 21)
    # fixed documentation examples
    ex = gen.TAG("div", gen.T("a"), gen.TAG("span", gen.T("b"), ws=False), gen.TAG("p", gen.T("c")), gen.T("d"))
    ctx.sample({"recipe": ex, "output": gen.build(ex).get_html_string()})

    for _ in range(ctx.budget(150, 20000)):
        ctx.guard(check_text_document, ctx, rng, witness={"what": "text document layout"})
    # 2. random valid trees
    for _ in range(ctx.budget(20000, 5000000)):
        ids = lg.Ids()
        depth = rng.choice([1, 2, 3, 4, 5, 6, 8])
        as_list = rng.random() < 0.25
        if as_list:
            n = rng.randint(0, 6)
            all_inline = rng.random() < 0.3
            items = [lg.rand_layout_tree(rng, ids, depth - 1, True, inside_inline=all_inline, text_ws=True, direct_only_kinds=True,
                                         max_children=rng.choice([3, 5, 12])) for _ in range(n)]
            r = {"k": "list", "t": "taglist", "c": items}
            add_ws = not (rng.random() < (0.6 if all_inline else 0.25))
        else:
            r = lg.rand_layout_tree(rng, ids, depth, True, text_ws=True, direct_only_kinds=True, max_children=rng.choice([3, 5, 12]),
                                    root_kind=rng.choice(["block", "block", "inline"]))
            add_ws = True
        indent = rng.choice([0, 0, 1, 2, 3, 5, 9])
        eol = rng.choice(EOLS)
        check_case(ctx, r, indent, eol, add_ws)
        if r["k"] == "tag" and rng.random() < 0.2:
            ctx.guard(check_after_mutations, ctx, r, indent, eol, witness={"recipe": r, "indent": indent, "eol": eol})
        ctx.case((r, indent, eol), nontrivial=nontrivial(r))
        ctx.state("indent_eol", (indent, eol))
