"""C08 - rendering and tagify are pure and consistent; tagify returns an independent copy.

Monitors (all at the API boundary, over operation histories):
  * purity: structural fingerprint of every pool object before/after each read-only call;
  * repeatability: per (object, operation) the first result's fingerprint, later ones equal;
  * independence: id()-disjointness of tree vs tagify() result, fixed point, and mutual
    mutation independence under random public-API mutations;
  * consistency of the four string views; equality oracle from recipes and point mutations.
"""

from __future__ import annotations

import copy
import os
import shutil
import tempfile

from ..loader import ht, core
from ..mon.purity import fp, ids
from .. import gen, layoutgen as lg

ID = "C08"
LEVEL = "exploration"
RULE = ("pools of trees / lists / documents / dependencies (file-backed, URL and source-less dependencies with head markup; "
        "HTML(); nested tags; html/body/head roots; html attribute arguments; tagifiable doubles) driven through random "
        "interleavings of 5-40 read-only operations (tagify, render, str, repr, _repr_html_, get_html_string, "
        "get_dependencies, copy.copy, save_html, HTMLDocument.render/save_html, as_html_tags, as_dict, source_path_map, "
        "serialize_to_script_json, copy_to), then random public-API mutations of the tagify() copy and of the original; "
        "equality from recipes built twice and from single point mutations. non-trivial = history has >=5 operations on a "
        "tree with >=1 dependency and >=3 tags; distinct by history digest")
ASSUMPTIONS = ["fingerprints walk __dict__ / list / dict state generically; harness doubles' call counters are excluded",
               "== is not required to distinguish HTML('x') from 'x' (the statement speaks of text) nor attribute order"]
SHARDS = {"quick": 1, "thorough": 16}

FILE_DEP = {"k": "dep", "name": "testdep", "version": "1.0", "source": {"package": "htmltools", "subdir": "libtest/testdep"},
            "script": [{"src": "testdep.js"}], "stylesheet": [{"href": "testdep.css"}]}
FILE_DEP3 = {"k": "dep", "name": "testdep", "version": "2.0", "source": {"package": "htmltools", "subdir": "libtest/dep2"},
             "script": {"src": "td2.js"}}   # same name as FILE_DEP, other version and directory
FILE_DEP2 = {"k": "dep", "name": "dep2", "version": "2.1.0", "source": {"package": "htmltools", "subdir": "libtest/dep2"},
             "script": {"src": "td2.js"}, "stylesheet": {"href": "td2.css"}, "all_files": True}


def rand_dep(rng, ids_):
    r = rng.random()
    if r < 0.2:
        return copy.deepcopy(FILE_DEP)
    if r < 0.3:
        return copy.deepcopy(FILE_DEP2)
    if r < 0.38:
        return copy.deepcopy(FILE_DEP3)
    d = {"k": "dep", "name": rng.choice(["da", "db", "dc"]), "version": rng.choice(["1.0", "1.9", "1.10"])}
    if rng.random() < 0.15:
        d["sub"] = True            # a user subclass of HTMLDependency
    if rng.random() < 0.15:
        d["version_object"] = True  # version given as a packaging Version object
    if rng.random() < 0.15:
        # a directory source written with an explicit package=None (the directory need not exist for rendering)
        d["source"] = {"package": None, "subdir": "static/lib"}
        d["script"] = [{"src": "p.js"}]
        d["nofs"] = True
        return d
    if rng.random() < 0.5:
        d["source"] = {"href": rng.choice(["https://cdn.example/x", "https://cdn.example/y/"])}
        d["script"] = [{"src": rng.choice("zyxwv") + ids_.next("u") + ".js", "defer": ""} for _ in range(rng.randint(1, 3))]
        if rng.random() < 0.5:
            d["stylesheet"] = {"href": "s.css"}
    if rng.random() < 0.4:
        # file names that percent-encoding changes, a rel that as_dict overrides; for every kind of source
        d["script"] = (d.get("script") if isinstance(d.get("script"), list) else []) + [{"src": rng.choice(["my widget.js", "100%.js", "ü.js"])}]
        d["stylesheet"] = [{"href": "a b.css", "rel": rng.choice(["preload", "alternate stylesheet"])}]
    if rng.random() < 0.5:
        d["meta"] = {"name": "viewport", "content": ids_.next("m")}
        r_ = rng.random()
        if r_ < 0.3:
            # python-style and mixed-case keys, extra keys, several items: whatever is stored stays as it was given
            d["meta"] = [dict(d["meta"], http_equiv="refresh", data_x_y="1", Content_Type="t"), {"name": "n2", "content": "c2", "x_": "trailing", "_lead": "l"}]
        elif r_ < 0.4:
            d["meta"] = [d["meta"]]
    if rng.random() < 0.15 and isinstance(d.get("script"), list):
        d["script"] = d["script"] + [{"src": "k.js", "cross_origin": "anonymous", "data_main": "m", "no_module": ""}]
        d["stylesheet"] = (d["stylesheet"] if isinstance(d.get("stylesheet"), list) else [d["stylesheet"]] if d.get("stylesheet") else []) + [{"href": "k.css", "cross_origin": "x"}]
    if rng.random() < 0.5:
        d["head"] = [gen.TAG("title", {"k": "text", "s": ids_.next("T")}), {"k": "html", "s": "<link rel=\"x\">"}]
        if rng.random() < 0.25:
            # a component (tagifiable AND self-rendering, so that its markup can be asked for directly) among the head nodes
            d["head"].append({"k": "tfobj", "ret": "list", "c": [gen.TAG("meta", attrs=[["name", {"t": "str", "s": "from-component"}]], via_fn=False)], "s": "<meta name=\"from-component\"/>"})
        if rng.random() < 0.5:
            # head tags that refer to files by relative URL (they are written as given)
            d["head"] += [gen.TAG("script", attrs=[["src", {"t": "str", "s": "init.js"}]], via_fn=False), gen.TAG("link", attrs=[["href", {"t": "str", "s": "theme/x.css"}], ["rel", {"t": "str", "s": "preload"}]], via_fn=False),
                          gen.TAG("img", attrs=[["src", {"t": "str", "s": "./pic.png"}]], ws=False, via_fn=False)][: rng.randint(1, 3)]
    elif rng.random() < 0.3:
        d["head"] = "<meta name=\"raw\" content=\"" + ids_.next("r") + "\">"
    return d


def rand_node(rng, ids_, depth, allow_tf=True):
    kinds = ["tag", "tag", "tag", "text", "text", "html", "obj", "dep", "dep", "meta", "headc", "list"] + (["tf"] if allow_tf else [])
    k = rng.choice(kinds)
    if depth <= 0 and k in ("tag", "list", "tf"):
        k = "text"
    if k == "tag":
        return gen.TAG(rng.choice(lg.BLOCKS + lg.INLINES + ["br", "script"]) if rng.random() < 0.9 else rng.choice(["head", "body"]),
                       *[rand_node(rng, ids_, depth - 1, allow_tf) for _ in range(rng.choice([0, 1, 2, 3, 4]))],
                       ws=rng.random() < 0.5, via_fn=False, how=rng.choice(gen.HOWS), attrs=gen.rand_attrs(rng, 3, hostile=rng.random() < 0.3),
                       **({"subclass": True} if rng.random() < 0.08 else {}))
    if k == "text":
        return {"k": "text", "s": ids_.next("t") + rng.choice(["", " <&>", "\n"])}
    if k == "html":
        return {"k": "html", "s": "<i>" + ids_.next("h") + "</i>"}
    if k == "obj":
        return {"k": "obj", "s": "<u>" + ids_.next("o") + "</u>"}
    if k == "dep":
        return rand_dep(rng, ids_)
    if k == "meta":
        return {"k": "meta", "sub": True} if rng.random() < 0.3 else {"k": "meta"}
    if k == "headc":
        return {"k": "headc", "c": [gen.TAG("title", {"k": "text", "s": "hc%d" % rng.randint(1, 3)})]}
    if k == "list":
        return {"k": "list", "t": rng.choice(["list", "tuple", "taglist"]), "c": [rand_node(rng, ids_, depth - 1, allow_tf) for _ in range(rng.randint(0, 3))]}
    if k == "tf":
        return {"k": "tf", "ret": "list", "c": [rand_node(rng, ids_, depth - 1, False) for _ in range(rng.randint(0, 3))]}
    raise ValueError(k)


def rand_root(rng, ids_, allow_tf=True):
    r = rng.random()
    d = rng.choice([1, 2, 3, 4])
    if r < 0.45:
        t = rand_node(rng, ids_, d, allow_tf)
        while t["k"] != "tag":
            t = rand_node(rng, ids_, d, allow_tf)
        if rng.random() < 0.2 and t["name"] not in ("script", "style"):
            # the document's own element names as ordinary roots (an <html> element is an element like any other)
            t["name"] = rng.choice(["html", "html", "body", "head"])
            t["via_fn"] = False
        return ("tag", t)
    if r < 0.6:
        return ("list", {"k": "list", "t": "taglist", "c": [rand_node(rng, ids_, d - 1, allow_tf) for _ in range(rng.randint(0, 4))]})
    if r < 0.9:
        # documents: fragment / lone body / lone html with or without head
        shape = rng.choice(["fragment", "body", "html", "html_nohead", "html_head_later"])
        kids = [rand_node(rng, ids_, d - 1, allow_tf) for _ in range(rng.randint(0, 3))]
        if shape == "fragment":
            content = kids
        elif shape == "body":
            content = [gen.TAG("body", *kids, via_fn=False, attrs=[["class", {"t": "str", "s": "b"}]])]
        elif shape == "html":
            content = [gen.TAG("html", gen.TAG("head", gen.TAG("title", {"k": "text", "s": "T"}), via_fn=False), gen.TAG("body", *kids, via_fn=False),
                               via_fn=False, attrs=[["lang", {"t": "str", "s": "fr"}], ["class", {"t": "str", "s": "page"}], ["style", {"t": "str", "s": "margin:0;"}], ["id", {"t": "str", "s": "top"}]][: rng.randint(1, 4)])]
        elif shape == "html_nohead":
            content = [gen.TAG("html", gen.TAG("body", *kids, via_fn=False), via_fn=False)]
        else:
            content = [gen.TAG("html", *kids[:1], gen.TAG("head", via_fn=False), gen.TAG("body", *kids[1:], via_fn=False), via_fn=False)]
        kw = rng.choice([{}, {"lang": "en"}, {"lang": "en", "class_": "doc"}, {"data_x": True}, {"class_": "dark", "style": "color:red;"}, {"class": "a", "class_": "b", "id": "other"},
                         {"style": "x:y;", "title": "t", "lang": None}])
        return ("doc", {"content": content, "kw": kw})
    return ("dep", rand_dep(rng, ids_))


def build_root(kind, r):
    if kind == "doc":
        return ht.HTMLDocument(*[gen.build(c) for c in r["content"]], **r["kw"])
    return gen.build(r)


# ------------------------------------------------------------------ operations
def ops_for(kind, scratch):
    def save(o, **kw):
        d = tempfile.mkdtemp(dir=scratch)
        f = os.path.join(d, "index.html")
        ret = o.save_html(f, **kw)
        with open(f) as fh:
            content = fh.read()
        listing = sorted(os.path.relpath(os.path.join(dp, fn), d) for dp, _, fns in os.walk(d) for fn in fns)
        shutil.rmtree(d, ignore_errors=True)
        return (os.path.relpath(ret, d), content, listing)

    def copy_to(o, **kw):
        d = tempfile.mkdtemp(dir=scratch)
        o.copy_to(d, **kw)
        listing = sorted(os.path.relpath(os.path.join(dp, fn), d) for dp, _, fns in os.walk(d) for fn in fns)
        shutil.rmtree(d, ignore_errors=True)
        return listing

    common_tree = {
        "tagify": lambda o: o.tagify(),
        "render": lambda o: o.render(),
        "str": lambda o: str(o),
        "repr": lambda o: repr(o),
        "_repr_html_": lambda o: o._repr_html_(),
        "get_html_string": lambda o: o.get_html_string(),
        "get_html_string(2,crlf)": lambda o: o.get_html_string(2, "\r\n"),
        "get_dependencies": lambda o: o.get_dependencies(),
        "get_dependencies(dedup=False)": lambda o: o.get_dependencies(dedup=False),
        "copy": lambda o: copy.copy(o),
        "save_html": lambda o: save(o),
        "save_html(libdir=None)": lambda o: save(o, libdir=None, include_version=False),
        "eq_self": lambda o: (o == o, o == copy.copy(o)),
        "deepcopy_renders_same": lambda o: _same_rendering(o, copy.deepcopy(o)),
        "pickle_renders_same": lambda o: _pickle_same(o),
        "len_iter_bool": lambda o: (len(o.children if isinstance(o, ht.Tag) else o), bool(o), [type(c).__name__ for c in (o.children if isinstance(o, ht.Tag) else o)]),
        "document": lambda o: ht.HTMLDocument(o).render(),
    }
    if kind in ("tag", "list"):
        return common_tree
    if kind == "doc":
        return {
            "render": lambda o: o.render(),
            "render(lib_prefix=None)": lambda o: o.render(lib_prefix=None),
            "render(include_version=False)": lambda o: o.render(lib_prefix="a/b", include_version=False),
            "save_html": lambda o: save(o),
            "save_html(libdir=x y)": lambda o: save(o, libdir="x y", include_version=False),
            "copy": lambda o: copy.copy(o),
        }
    return {
        "as_html_tags": lambda o: o.as_html_tags(),
        "as_html_tags(None,False)": lambda o: o.as_html_tags(lib_prefix=None, include_version=False),
        "as_dict": lambda o: o.as_dict(),
        "as_dict(p)": lambda o: o.as_dict(lib_prefix="p/q", include_version=False),
        "source_path_map": lambda o: _checked_source(o, o.source_path_map()),
        "source_path_map(noversion)": lambda o: _checked_source(o, o.source_path_map(lib_prefix=None, include_version=False)),
        "serialize_to_script_json": lambda o: o.serialize_to_script_json(),
        "serialize_to_script_json(2)": lambda o: o.serialize_to_script_json(indent=2),
        "copy_to": lambda o: copy_to(o),
        "copy_to(noversion)": lambda o: copy_to(o, include_version=False),
        "str": lambda o: str(o),
        "repr": lambda o: repr(o),
        "copy": lambda o: copy.copy(o),
        "in_tree_render": lambda o: ht.div(o, "x").render(),
        "in_doc_render": lambda o: ht.HTMLDocument(ht.div(o)).render(),
    }


class ProtocolBroken(Exception):
    pass


def _same_rendering(a, b):
    ra, rb = a.render(), b.render()
    if ra["html"] != rb["html"] or [(d.name, str(d.version)) for d in ra["dependencies"]] != [(d.name, str(d.version)) for d in rb["dependencies"]]:
        raise ProtocolBroken("a deep copy renders differently from its original")
    if type(a) is not type(b):
        raise ProtocolBroken("a deep copy has another type (%s) than its original (%s)" % (type(b).__name__, type(a).__name__))
    return True


def _pickle_same(o):
    import pickle

    try:
        b = pickle.loads(pickle.dumps(o))
    except Exception:
        return "not picklable (harness doubles with local state)"
    return _same_rendering(o, b)


class WrongSource(Exception):
    pass


def _checked_source(dep, m):
    """The source directory belongs to THIS dependency's package and subdir, whatever was asked of other dependencies before."""
    src = dep.source
    if isinstance(src, dict) and src.get("package") and "subdir" in src:
        import importlib
        want = os.path.join(os.path.dirname(importlib.import_module(src["package"]).__file__), src["subdir"])
        if os.path.realpath(m["source"]) != os.path.realpath(want):
            raise WrongSource("source_path_map() of %s-%s gives %r, its own directory is %r" % (dep.name, dep.version, m["source"], want))
    return m


def has_missing_files(kind, r):
    return False


def has_bare_meta(kind, r):
    """Bare MetadataNode instances carry no value and compare by identity; the statement only promises that
    dependencies are compared by value."""
    if kind == "doc":
        return any(x["k"] == "meta" for c in r["content"] for x in gen.walk(c))
    return any(x["k"] == "meta" for x in gen.walk(r))


def has_tf(kind, r):
    if kind == "doc":
        return any(x["k"] in ("tf", "tfobj") for c in r["content"] for x in gen.walk(c))
    return any(x["k"] in ("tf", "tfobj") for x in gen.walk(r))


# ------------------------------------------------------------------ mutations through the public API
def collect_nodes(o, out=None, seen=None):
    if out is None:
        out, seen = {"tags": [], "deps": [], "metas": [], "lists": []}, set()
    if id(o) in seen:
        return out
    seen.add(id(o))
    if isinstance(o, ht.Tag):
        out["tags"].append(o)
        collect_nodes(o.children, out, seen)
    elif isinstance(o, core.TagList):
        out["lists"].append(o)
        for c in o:
            collect_nodes(c, out, seen)
    elif isinstance(o, ht.HTMLDependency):
        out["deps"].append(o)
        if o.head is not None:
            collect_nodes(o.head, out, seen)
    elif isinstance(o, ht.MetadataNode):
        out["metas"].append(o)
    elif isinstance(o, ht.HTMLDocument):
        collect_nodes(o._content, out, seen)
    return out


def mutate(rng, o, log):
    """Apply one random mutation through the public API to something reachable from o."""
    nodes = collect_nodes(o)
    choices = []
    if nodes["tags"]:
        choices += ["html_child_iadd", "html_attr_iadd", "str_child_iadd"]
        choices += ["append", "insert", "extend", "setattr", "update", "add_class", "remove_class", "add_style", "name", "add_ws", "delchild", "popattr"]
    if nodes["lists"]:
        choices += ["list_append", "list_iadd"]
    if nodes["deps"]:
        choices += ["dep_name", "dep_script_append", "dep_script_item", "dep_head_append", "dep_meta", "dep_source", "dep_version"]
    if nodes["metas"]:
        choices += ["meta_attr"]
    if not choices:
        return False
    m = rng.choice(choices)
    log.append(m)
    if m in ("html_child_iadd", "html_attr_iadd", "str_child_iadd"):
        # augmented assignment on a child / attribute value (strings and HTML() are values: the other tree keeps its own)
        for t in rng.sample(nodes["tags"], len(nodes["tags"])):
            if m == "html_attr_iadd":
                ks = [k for k, v in t.attrs.items() if isinstance(v, ht.HTML)]
                if ks:
                    t.attrs[ks[0]] += " added"
                    return True
            else:
                want = ht.HTML if m == "html_child_iadd" else str
                idx = [i for i, c in enumerate(t.children) if type(c) is want]
                if idx:
                    t.children[idx[0]] += " added<&>"
                    return True
        log.pop()
        return False
    if m in ("append", "insert", "extend", "setattr", "update", "add_class", "remove_class", "add_style", "name", "add_ws", "delchild", "popattr"):
        t = rng.choice(nodes["tags"])
        if m == "append":
            t.append("MUT", ht.span("m"))
        elif m == "insert":
            t.insert(0, ht.tags.b("MUT"))
        elif m == "extend":
            t.extend(["M1", ["M2"]])
        elif m == "setattr":
            t.attrs["data-mut"] = "1"
        elif m == "update":
            t.attrs.update({"class": "mut"}, id="mut")
        elif m == "add_class":
            t.add_class("mutc")
        elif m == "remove_class":
            t.add_class("zz").remove_class("zz")
            t.attrs["title"] = "mut"
        elif m == "add_style":
            t.add_style("color:red;")
        elif m == "name":
            t.name = "mutated"
        elif m == "add_ws":
            t.add_ws = not t.add_ws
        elif m == "delchild":
            if len(t.children):
                del t.children[0]
            else:
                t.append("only")
        elif m == "popattr":
            if t.attrs:
                t.attrs.pop(next(iter(t.attrs)))
            else:
                t.attrs["x"] = "y"
    elif m == "list_append":
        rng.choice(nodes["lists"]).append("LMUT")
    elif m == "list_iadd":
        lst = rng.choice(nodes["lists"])
        lst += ["IADD"]
    elif m == "dep_name":
        rng.choice(nodes["deps"]).name = "MUTNAME"
    elif m == "dep_version":
        from packaging.version import Version
        rng.choice(nodes["deps"]).version = Version("99.0")
    elif m == "dep_script_append":
        rng.choice(nodes["deps"]).script.append({"src": "mut.js"})
    elif m == "dep_script_item":
        d = rng.choice(nodes["deps"])
        if d.script:
            d.script[0]["src"] = "changed.js"
        else:
            d.script.append({"src": "new.js"})
    elif m == "dep_head_append":
        d = rng.choice(nodes["deps"])
        if d.head is None:
            d.head = ht.TagList("HM")
        else:
            d.head.append("HM")
    elif m == "dep_meta":
        rng.choice(nodes["deps"]).meta.append({"name": "mut", "content": "c"})
    elif m == "dep_source":
        d = rng.choice(nodes["deps"])
        if isinstance(d.source, dict):
            d.source["href"] = "https://mut"
        else:
            d.source = {"href": "https://mut"}
    elif m == "meta_attr":
        rng.choice(nodes["metas"]).mutated_field = ["x"]
    return True


# ------------------------------------------------------------------ one history
def run_history(ctx, h, scratch):
    rng = ctx.rng
    kind, r = h["root"]
    wit = {"history": h}
    obj = build_root(kind, r)
    ops = ops_for(kind, scratch)
    first = {}
    base = fp(obj)
    tf = has_tf(kind, r)
    nofs = any(isinstance(x, dict) and x.get("nofs") for x in (gen.walk(r) if kind in ("tag", "list", "dep") else [y for c in r["content"] for y in gen.walk(c)]))
    for name in h["ops"]:
        if nofs and name.startswith(("save_html", "copy_to")):
            continue  # the directory source of this dependency does not exist on disk
        if tf and name.startswith("get_html_string"):
            continue  # asking an un-expanded tree for markup raises by design (C09)
        ctx.count("monitor.purity")
        try:
            res = ops[name](obj)
        except WrongSource as e:
            ctx.violation("result-depends-on-other-objects", str(e), dict(wit, op=name))
            return False
        except ProtocolBroken as e:
            ctx.violation("copy-protocol-changes-rendering", str(e), dict(wit, op=name))
            return False
        except Exception as e:
            ctx.violation("read-only-op-raises", "%s raised %r" % (name, e), dict(wit, op=name))
            return False
        after = fp(obj)
        if after != base:
            ctx.violation(_purity_key(kind, name, r), "%s changed the object graph of its receiver" % name, dict(wit, op=name))
            return False
        rf = fp(res)
        if name in first:
            ctx.count("monitor.repeatability")
            if first[name] != rf:
                ctx.violation("result-not-repeatable", "%s returned a different result when repeated" % name, dict(wit, op=name))
                return False
        else:
            first[name] = rf
        # what an operation RETURNS is the caller's: overwriting the top level of a returned mapping / list changes neither the
        # receiver nor what the next call (on this or any other object) returns
        if name not in ("tagify", "copy") and type(res) in (dict, list, ht.TagList):
            ctx.count("monitor.results_overwritten_by_caller")
            if type(res) is dict:
                for k_ in list(res):
                    res[k_] = "overwritten by the caller"
                res["added by the caller"] = 1
            else:
                del res[:]
                res.append("overwritten by the caller")
            if fp(obj) != base:
                ctx.violation("result-aliases-receiver", "overwriting the top level of what %s returned changed the receiver" % name, dict(wit, op=name))
                return False
        ctx.state("ops_observed", (kind, name))
    if not check_default_equivalence(ctx, kind, obj, tf, nofs, scratch, wit):
        return False
    if kind in ("tag", "list"):
        return check_views_and_copy(ctx, obj, kind, r, wit, rng)
    return True


class _HandsOutItsOwnTag:
    """A tagifiable that keeps the (already tagified) tag it hands out - a component with a cached rendering."""

    def __init__(self, kept):
        self.kept = kept

    def tagify(self):
        return self.kept


def check_handed_out_expansions(ctx, rng):
    """Whatever a tagify() method hands out still belongs to the object that handed it out: no read-only operation on a tree or
    document that contains the object changes it."""
    name = rng.choice(["html", "html", "body", "div", "head"])
    mk = {"html": lambda: ht.tags.html(ht.tags.head(ht.tags.title("t")), ht.tags.body("b", ht.HTMLDependency("kept-dep", "1.0", script={"src": "k.js"})), lang="fr", class_="page"),
          "body": lambda: ht.tags.body("b", ht.span("s"), class_="bd"), "div": lambda: ht.div("d", id="i"), "head": lambda: ht.tags.head(ht.tags.title("t"))}[name]
    w = _HandsOutItsOwnTag(mk())
    before = fp(w.kept)
    kw = rng.choice([{}, {"lang": "de"}, {"class_": "dark", "style": "margin:0;"}, {"data_x": True, "lang": None}])
    ops = [("HTMLDocument(w, **kw).render()", lambda: ht.HTMLDocument(w, **kw).render()), ("HTMLDocument(w).render() twice", lambda: [ht.HTMLDocument(w, **kw).render() for _ in range(2)]),
           ("HTMLDocument(TagList(w)).render()", lambda: ht.HTMLDocument(ht.TagList(w), **kw).render()), ("div(w).render()", lambda: ht.div(w).render()),
           ("str(TagList(w))", lambda: str(ht.TagList(w))), ("TagList(w).tagify().get_html_string()", lambda: ht.TagList(w).tagify().get_html_string()),
           ("HTMLDocument(dep, w).render()", lambda: ht.HTMLDocument(ht.HTMLDependency("d", "1.0"), w, **kw).render())]
    rng.shuffle(ops)
    for label, op in ops[: rng.randint(2, len(ops))]:
        ctx.count("monitor.handed_out_expansions")
        try:
            op()
        except Exception as e:
            ctx.violation("read-only-op-raises", "%s raised %r" % (label, e), {"kept": name, "op": label, "kw": repr(kw)})
            return False
        if fp(w.kept) != before:
            ctx.violation("read-only-op-mutates:expansion-result", "%s changed the <%s> tag that the object's tagify() hands out (and keeps)" % (label, name),
                          {"kept": name, "op": label, "kw": repr(kw), "now": str(w.kept)[:300]})
            return False
    return True


def check_jsx_component_purity(ctx, rng):
    """tagify() / str() / render() of a JSX component leave the component, its props and everything reachable from it as they
    were (same child and prop objects, same structure), so repeating them gives the same result."""
    from ..loader import jsx_mod

    Foo, Bar = jsx_mod.jsx_tag_create("Foo"), jsx_mod.jsx_tag_create("Bar")
    # (the component among the JSX children expands to ONE tag: an expansion that is a list is refused there by the unchanged library)
    w = gen.build({"k": "tf", "ret": "one", "c": [gen.TAG("span", {"k": "text", "s": "widget"}, ws=False)]})
    dep = ht.HTMLDependency("jx", "1.0", source={"subdir": "a"}, script={"src": "a.js"})
    title = ht.div("t", ht.span("u"))
    inner = Bar(w, dep, title=title, n=3)
    x = Foo(inner, "text", footer=inner) if rng.random() < 0.5 else Foo(ht.div(inner, "k"), w, header=title)
    root = rng.choice([lambda: x, lambda: ht.div(x), lambda: ht.TagList("a", x)])()
    kids_before, inner_kids, inner_attrs = list(x.children), list(inner.children), dict(inner.attrs)
    before = (fp(x), fp(inner), fp(title))
    ops = [("tagify", lambda: root.tagify()), ("str", lambda: str(root)), ("render", lambda: (root.render()["html"] if hasattr(root, "render") else root._repr_html_())), ("get_dependencies", lambda: root.tagify().get_dependencies()),
           ("document", lambda: ht.HTMLDocument(root).render()["html"])]
    rng.shuffle(ops)
    first = {}
    for rnd in range(2):
        for label, op in ops:
            ctx.count("monitor.jsx_component_purity")
            try:
                res = op()
            except Exception as e:
                ctx.violation("read-only-op-raises", "%s of a JSX component raised %r" % (label, e), {"op": label})
                return False
            same_objects = (len(x.children) == len(kids_before) and all(a is b for a, b in zip(x.children, kids_before))
                            and len(inner.children) == len(inner_kids) and all(a is b for a, b in zip(inner.children, inner_kids))
                            and list(inner.attrs) == list(inner_attrs) and all(inner.attrs[k] is v for k, v in inner_attrs.items()))
            if not same_objects or (fp(x), fp(inner), fp(title)) != before:
                ctx.violation("read-only-op-mutates:jsx-component", "%s changed the JSX component (or a component / tag among its children and props)" % label, {"op": label, "round": rnd})
                return False
            key = res if isinstance(res, str) else fp(res)
            if first.setdefault(label, key) != key:
                ctx.violation("repeat-differs:jsx-component", "%s of the same JSX component gives a different result the second time" % label, {"op": label})
                return False
    return True


def check_default_equivalence(ctx, kind, obj, tf, nofs, scratch, wit):
    """Leaving a parameter out is the same as passing its documented default - positionally or by keyword."""
    ops = ops_for(kind, scratch)
    groups = []
    if kind in ("tag", "list"):
        if not tf:
            groups.append(("get_html_string", [lambda: obj.get_html_string(), lambda: obj.get_html_string(0), lambda: obj.get_html_string(0, "\n"),
                                               lambda: obj.get_html_string(indent=0, eol="\n"), lambda: obj.get_html_string(eol="\n")]
                           + ([lambda: obj.get_html_string(0, "\n", add_ws=True), lambda: obj.get_html_string(add_ws=True)] if kind == "list" else [])))
        groups.append(("get_dependencies", [lambda: obj.get_dependencies(), lambda: obj.get_dependencies(dedup=True)] + ([lambda: obj.get_dependencies(True)] if kind == "tag" else [])))
        if not nofs and ctx.rng.random() < 0.2:
            groups.append(("save_html", [lambda: ops["save_html"](obj), lambda: _save_kw(ops, obj, libdir="lib", include_version=True), lambda: _save_kw(ops, obj, libdir="lib")]))
    elif kind == "doc":
        groups.append(("render", [lambda: obj.render(), lambda: obj.render(lib_prefix="lib", include_version=True), lambda: obj.render(lib_prefix="lib"), lambda: obj.render(include_version=True)]))
    else:
        groups.append(("as_dict", [lambda: obj.as_dict(), lambda: obj.as_dict(lib_prefix="lib", include_version=True), lambda: obj.as_dict(include_version=True)]))
        groups.append(("as_html_tags", [lambda: obj.as_html_tags(), lambda: obj.as_html_tags(lib_prefix="lib", include_version=True), lambda: obj.as_html_tags(lib_prefix="lib")]))
        groups.append(("source_path_map", [lambda: obj.source_path_map(), lambda: obj.source_path_map(lib_prefix="lib", include_version=True)]))
        groups.append(("serialize_to_script_json", [lambda: obj.serialize_to_script_json(), lambda: obj.serialize_to_script_json(None), lambda: obj.serialize_to_script_json(indent=None)]))
    for name, variants in groups:
        results = []
        for v in variants:
            try:
                results.append(fp(v()))
            except Exception as e:
                results.append(("raised", type(e).__name__))
        ctx.count("monitor.default_equivalence")
        if any(x != results[0] for x in results[1:]):
            ctx.violation("default-not-equivalent-to-omission", "%s: leaving parameters out differs from passing their documented defaults (variant %d)"
                          % (name, next(i for i, x in enumerate(results) if x != results[0])), dict(wit, op=name))
            return False
    return True


def _save_kw(ops, obj, **kw):
    import tempfile as _tf

    d = _tf.mkdtemp()
    try:
        f = os.path.join(d, "index.html")
        ret = obj.save_html(f, **kw)
        with open(f) as fh:
            content = fh.read()
        listing = sorted(os.path.relpath(os.path.join(dp, fn), d) for dp, _, fns in os.walk(d) for fn in fns)
        return (os.path.relpath(ret, d), content, listing)
    finally:
        shutil.rmtree(d, ignore_errors=True)


def _purity_key(kind, name, r):
    if kind == "doc" and name.startswith(("render", "save_html")):
        c = r["content"]
        if len(c) == 1 and c[0]["k"] == "tag" and c[0]["name"] == "html" and r["kw"]:
            return "htmldocument-html-root-attrs"
    return "read-only-op-mutates:" + name.split("(")[0]


def check_disjoint(ctx, a, b, wit, what):
    ia, ib = ids(a), ids(b)
    shared = set(ia) & set(ib)
    if shared:
        kinds = sorted({ia[i] for i in shared})
        ctx.violation("copy-shares-objects:" + "+".join(kinds), "%s shares %d object(s) (%s) with the original" % (what, len(shared), ", ".join(kinds)), wit)
        return False
    return True


def check_mutual(ctx, orig, cp, wit, rng, what):
    for side in ("copy", "original"):
        target, other = (cp, orig) if side == "copy" else (orig, cp)
        before = fp(other)
        log = []
        for _ in range(rng.randint(1, 4)):
            mutate(rng, target, log)
            ctx.count("monitor.mutation_independence")
            if fp(other) != before:
                ctx.violation("mutation-leaks:" + (log[-1] if log else "?"), "mutating the %s (%s) through the public API changed the %s of %s"
                              % (side, ",".join(log), "original" if side == "copy" else "copy", what), dict(wit, mutations=log, side=side))
                return False
    return True


def check_views_and_copy(ctx, obj, kind, r, wit, rng):
    s = str(obj)
    ctx.count("monitor.views")
    if not (s == repr(obj) == obj._repr_html_() == obj.render()["html"]):
        ctx.violation("string-views-disagree", "str/repr/_repr_html_/render()['html'] are not the same string", wit)
        return False
    t = obj.tagify()
    ctx.count("monitor.independence")
    if not check_disjoint(ctx, obj, t, wit, "tagify()"):
        return False
    if not has_tf(kind, r) and not has_bare_meta(kind, r):
        if not (t == obj and obj == t):
            ctx.violation("tagify-not-equal-to-original", "tagify() of a tree without tagifiables is != the original", wit)
            return False
    t2 = t.tagify()
    if fp(t2) != fp(t):
        ctx.violation("tagify-not-fixed-point", "tagify() of a tagified tree changed it", wit)
        return False
    return check_mutual(ctx, obj, t, wit, rng, "tagify()")


# ------------------------------------------------------------------ equality oracle
def point_mutations(rng, r):
    """Yield (description, mutated recipe) for a tag/list root recipe."""
    nodes = [x for x in gen.walk(r)]
    tags = [x for x in nodes if x["k"] == "tag"]
    texts = [x for x in nodes if x["k"] == "text"]
    deps = [x for x in nodes if x["k"] == "dep"]
    out = []

    def mut(desc, pick, fn):
        r2 = copy.deepcopy(r)
        n2 = [x for x in gen.walk(r2)]
        fn(n2[nodes.index(pick)])
        out.append((desc, r2))

    if tags:
        t = rng.choice(tags)
        mut("tag name", t, lambda x: x.__setitem__("name", x["name"] + "x"))
        mut("add_ws", t, lambda x: x.__setitem__("ws", not x["ws"]))
        if not t.get("via_fn", True) or t.get("subclass"):
            # (the name is written as given: names that differ in letter case, or by a blank, are different names)
            mut("tag name letter case", t, lambda x: x.__setitem__("name", x["name"].swapcase() if x["name"].swapcase() != x["name"] else x["name"] + "X"))
        mut("attr added", t, lambda x: x["attrs"].append(["data-new", {"t": "str", "s": "1"}]))
        mut("child inserted", t, lambda x: x["c"].insert(0, {"k": "text", "s": "INS"}))
        if t["attrs"] and t["attrs"][0][1]["t"] == "str":
            mut("attr value letter case", t, lambda x: x["attrs"][0][1].__setitem__("s", x["attrs"][0][1]["s"].swapcase() if x["attrs"][0][1]["s"].swapcase() != x["attrs"][0][1]["s"] else x["attrs"][0][1]["s"] + "q"))
            mut("attr value trailing blank", t, lambda x: x["attrs"][0][1].__setitem__("s", x["attrs"][0][1]["s"] + " "))
            mut("attr value", t, lambda x: x["attrs"][0][1].__setitem__("s", x["attrs"][0][1]["s"] + "!"))
        tk = [x for x in tags if x["c"] and x["c"][-1]["k"] not in ("list", "none")]
        if tk:
            t3 = rng.choice(tk)
            mut("child removed", t3, lambda x: x["c"].pop())
    if texts:
        mut("text", rng.choice(texts), lambda x: x.__setitem__("s", x["s"] + "?"))
        mut("text letter case / blank", rng.choice(texts), lambda x: x.__setitem__("s", x["s"].swapcase() if x["s"].swapcase() != x["s"] else x["s"] + " "))
    if deps:
        d = rng.choice(deps)
        mut("dep name", d, lambda x: x.__setitem__("name", x["name"] + "z"))
        if isinstance(d.get("script"), list) and d["script"]:
            mut("dep script src", d, lambda x: x["script"][0].__setitem__("src", "other.js"))
        mut("dep version", d, lambda x: x.__setitem__("version", "7.7"))
    return out


def check_equality(ctx, rng, ids_):
    kind, r = rand_root(rng, ids_, allow_tf=False)
    if kind in ("tag", "list") and has_bare_meta(kind, r):
        return
    if kind not in ("tag", "list"):
        if kind == "dep":
            a, b = gen.build(r), gen.build(r)
            ctx.count("monitor.equality")
            if not (a == b and b == a):
                ctx.violation("equal-structures-compare-unequal", "dependency built twice from one recipe is !=", {"recipe": r})
            for other in (ht.div(), ht.TagList(), "x", ht.HTML("x"), None, 5):
                if a == other or other == a:
                    ctx.violation("different-kinds-compare-equal", "dependency == %r" % (other,), {"recipe": r})
        return
    a, b = gen.build(r), gen.build(r)
    wit = {"recipe": r}
    ctx.count("monitor.equality")
    if not (a == b and b == a) or (a != b):
        ctx.violation("equal-structures-compare-unequal", "the same recipe built twice is !=", wit)
        return
    # the same attributes supplied in another order: the set of attributes and their values are what they were
    r_rev = copy.deepcopy(r)
    reordered = 0
    for x in gen.walk(r_rev):
        if x["k"] == "tag" and len(x.get("attrs") or []) > 1:
            names = [(n_[:-1] if n_.endswith("_") else n_).replace("_", "-") for n_, _v in x["attrs"]]
            if len(set(names)) == len(names):
                x["attrs"].reverse()
                reordered += 1
    if reordered:
        c = gen.build(r_rev)
        ctx.count("monitor.equality_reordered_attrs")
        if not (a == c and c == a) or (a != c):
            ctx.violation("equal-structures-compare-unequal", "tags with the same attributes and values, supplied in another order, are !=", dict(wit, reordered=r_rev))
            return
    for desc, r2 in point_mutations(rng, r):
        c = gen.build(r2)
        ctx.count("monitor.equality")
        if a == c or c == a:
            ctx.violation("different-structures-compare-equal:" + desc, "== is True although the %s differs" % desc, dict(wit, mutated=r2, what=desc))
            return
        ctx.state("point_mutations", desc)
    others = [ht.HTMLDependency("n", "1"), "x", ht.HTML("x"), None, 5, [], ht.TagList(a) if kind == "tag" else ht.div(a)]
    others.append(ht.TagList() if kind == "tag" else ht.div())
    if kind == "tag":
        others.append(list(a.children))
    else:
        others.append(list(a))
        others.append(tuple(a))
    # ... nor is an object equal to a rendering or a part of itself
    try:
        markup = str(a)
        others += [markup, ht.HTML(markup), a.get_html_string(), repr(a), a.render(), markup.encode("utf-8"), [markup]]
    except Exception:
        pass
    if kind == "tag":
        others += [a.name, dict(a.attrs), a.attrs, a.children]
    for o in others:
        if a == o or o == a:
            ctx.violation("different-kinds-compare-equal", "%s == %r" % (kind, o), wit)
            return
        if not (a != o):
            ctx.violation("different-kinds-compare-equal", "%s != %r is False" % (kind, o), wit)
            return


def replay(ctx, w):
    scratch = tempfile.mkdtemp(prefix="hv-c08-")
    try:
        if "history" in w:
            h = w["history"]
            h["root"] = tuple(h["root"])
            run_history(ctx, h, scratch)
    finally:
        shutil.rmtree(scratch, ignore_errors=True)


def nontrivial(h):
    kind, r = h["root"]
    if kind == "doc":
        nodes = [x for c in r["content"] for x in gen.walk(c)]
    else:
        nodes = list(gen.walk(r))
    return len(h["ops"]) >= 5 and sum(1 for x in nodes if x["k"] == "tag") >= 3 and any(x["k"] in ("dep", "headc") for x in nodes)


def run(ctx):
    scratch = tempfile.mkdtemp(prefix="hv-c08-")
    try:
        _run(ctx, scratch)
    finally:
        shutil.rmtree(scratch, ignore_errors=True)


def _run(ctx, scratch):
    rng = ctx.rng
    ctx.require("monitor.purity", 2000)
    ctx.require("monitor.repeatability", 300)
    ctx.require("monitor.independence", 200)
    ctx.require("monitor.mutation_independence", 200)
    ctx.require("monitor.equality", 300)
    ctx.require("monitor.views", 100)
    if ctx.thorough and ctx.shard == 0:
        # extra workload: the repository's own tests with fingerprints taken around every outermost read-only call
        from .. import repotests

        repotests.run_under(ctx, ["purity"])
    # fixed: the html-root document with attribute arguments
    fixed = {"root": ("doc", {"content": [gen.TAG("html", gen.TAG("body", {"k": "text", "s": "b"}, via_fn=False), via_fn=False)], "kw": {"lang": "en"}}),
             "ops": ["render", "render", "save_html", "render(lib_prefix=None)"]}
    if ctx.shard == 0:
        ctx.guard(run_history, ctx, fixed, scratch, witness={"history": fixed})
        ctx.case(fixed, nontrivial=False)
        ctx.sample(fixed)
    for _ in range(ctx.budget(700, 300000)):
        ids_ = lg.Ids()
        kind, r = rand_root(rng, ids_)
        names = list(ops_for(kind, scratch))
        ops = [rng.choice(names) for _ in range(rng.randint(5, 40) if rng.random() < 0.5 else rng.randint(5, 12))]
        # keep the expensive file-system operations rare
        ops = [o for o in ops if not o.startswith(("save_html", "copy_to")) or rng.random() < 0.25]
        h = {"root": (kind, r), "ops": ops}
        ctx.guard(run_history, ctx, h, scratch, witness={"history": h})
        ctx.case(h, nontrivial=nontrivial(h))
        ctx.guard(check_equality, ctx, rng, lg.Ids(), witness={"what": "equality"})
        ctx.guard(check_handed_out_expansions, ctx, rng, witness={"what": "expansion results that their object keeps"})
        if ctx.counters["monitor.handed_out_expansions"] % 3 == 0:
            ctx.guard(check_jsx_component_purity, ctx, rng, witness={"what": "JSX component purity"})
