"""C09 - tagifiable objects render as their expansion, spliced in place."""

from __future__ import annotations

import itertools

from ..loader import ht, core
from ..mon import probe
from ..mon.purity import fp
from .. import gen, layoutgen as lg

ID = "C09"
LEVEL = "exploration"
RULE = ("trees with tagifiable doubles (payload kinds Tag, TagList of length 0/1/2/3/5, str, HTML, dependency, metadata; nested "
        "inside other expansions to depth 4; first/last/adjacent runs) compared with the same recipe expanded by an independent "
        "recursive expander: render() html, dependency list by value and order, fingerprint of tagify(), HTMLDocument.render(); "
        "ALL sibling sequences of length<=5 over {plain, tf->0, tf->1, tf->3} enumerated; un-expanded objects must raise. "
        "non-trivial = >=2 tagifiables of which one expands to a list of length != 1; distinct by recipe digest")
ASSUMPTIONS = ["harness doubles return already-tagified payloads as the Tagifiable protocol requires"]
SHARDS = {"quick": 1, "thorough": 16}


def expand(r):
    """Independent expander: returns a LIST of recipes replacing r."""
    k = r["k"]
    if k in ("tf", "tfobj"):
        if r.get("ret", "list") != "list":
            return expand(r["c"][0])
        kids = []
        for c in r["c"]:
            kids.extend(expand(c))
        return kids
    if k == "list":
        out = []
        for c in r["c"]:
            out.extend(expand(c))
        return out
    if k == "tag":
        kids = []
        for c in r["c"]:
            if r.get("how") == "displayed" and (c["k"] == "obj" or (c["k"] == "inst" and c["has"] == "repr")):
                # a displayed value that is only self-rendering is stored as its markup (C17)
                c = {"k": "html", "s": c["s"] if c["k"] == "obj" else "<i>dyn</i>"}
            kids.extend(expand(c))
        r2 = dict(r)
        r2["c"] = kids
        r2["how"] = "used_as_context" if r.get("how") in ("used_as_context", "displayed") else "ctor"
        return [r2]
    if k == "none":
        return []
    return [r]


def _live_tags(x, seen=None):
    seen = seen if seen is not None else set()
    if id(x) in seen:
        return
    seen.add(id(x))
    if isinstance(x, ht.Tag):
        yield x
        for c in x.children:
            yield from _live_tags(c, seen)
    elif isinstance(x, ht.TagList):
        for c in x:
            yield from _live_tags(c, seen)


def has_lazy_meta(r):
    """A tagifiable that is also a metadata node is invisible until expanded: asking for markup neither emits
    anything for it nor is required to raise."""
    if r["k"] == "tf" and r.get("as") in ("meta", "str", "tagsub"):
        # (an expanding Tag subclass is, un-expanded, a tag and renders as one)
        # (a tagifiable that is ALSO a plain string is, un-expanded, just that string: text children are C02's business)
        return True
    if r["k"] in ("tag", "list"):
        return any(has_lazy_meta(c) for c in r["c"])
    return False


def has_raw_tf(r):
    """tf (without _repr_html_) present in the raw tree (not inside another tf's payload)."""
    if r["k"] == "tf":
        return r.get("as") not in ("meta", "str", "tagsub")
    if r["k"] in ("tag", "list"):
        return any(has_raw_tf(c) for c in r["c"])
    return False


def str_tf_among_siblings(r, top=True):
    """An un-expanded tagifiable that is ALSO a plain string is written as that string where the writer takes the one-text-child
    shortcut (the only visible child of an element); anywhere else - next to siblings, or directly in a list - it is an un-expanded
    object like any other and asking for markup raises."""
    if r["k"] == "tf":
        return top and r.get("as") == "str"
    if r["k"] not in ("tag", "list"):
        return False
    kids = gen.flat_children(r)
    vis = [c for c in kids if c["k"] not in ("meta", "dep", "headc") and not (c["k"] == "tf" and c.get("as") == "meta")]
    for c in kids:
        if c["k"] == "tf" and c.get("as") == "str":
            if r["k"] == "list" or len(vis) != 1:
                return True
        elif c["k"] in ("tag", "list") and str_tf_among_siblings(c, False):
            return True
    return False


def dep_vals(deps):
    return [(d.name, str(d.version), fp(d)) for d in deps]


def check_case(ctx, r):
    wit = {"recipe": r}
    live = gen.build(r)
    exp = expand(r)
    if r["k"] == "tag":
        assert len(exp) == 1
        live_exp = gen.build(exp[0])
    else:
        live_exp = ht.TagList(*[gen.build(c) for c in exp])
    ctx.count("oracle.expansion")
    a = live.render()
    b = live_exp.render()
    if a["html"] != b["html"]:
        ctx.violation("expansion-html-differs", "render() differs from rendering the expanded tree",
                      dict(wit, got=a["html"][:1200], want=b["html"][:1200]))
        return False
    if dep_vals(a["dependencies"]) != dep_vals(b["dependencies"]):
        ctx.violation("expansion-deps-differ", "dependencies reported by render() differ from the expanded tree's",
                      dict(wit, got=[(n, v) for n, v, _ in dep_vals(a["dependencies"])], want=[(n, v) for n, v, _ in dep_vals(b["dependencies"])]))
        return False
    a2 = live.render()
    if a2["html"] != a["html"] or dep_vals(a2["dependencies"]) != dep_vals(a["dependencies"]):
        ctx.violation("expansion-not-repeatable", "rendering the same tree a second time gives a different result", dict(wit, first=a["html"][:800], second=a2["html"][:800]))
        return False
    t = live.tagify()
    if fp(t) != fp(live_exp):
        ctx.violation("tagify-structure-differs", "tagify() result is structurally different from the expanded tree", wit)
        return False
    if str(live) != a["html"]:
        ctx.violation("str-differs-from-render", "str() differs from render()['html']", wit)
        return False
    # the Quarto rendering path: str()/_repr_html_() with dependencies serialised after the markup
    import htmltools as _h
    old_mode = _h.html_dependency_render_mode
    _h.html_dependency_render_mode = "json"
    try:
        ja, jb, jr = str(live), str(live_exp), live._repr_html_()
    finally:
        _h.html_dependency_render_mode = old_mode
    ctx.count("oracle.json_mode_expansion")
    if ja != jb or jr != ja:
        ctx.violation("expansion-json-mode-differs", "in the JSON dependency render mode str()/_repr_html_() of the tree differ from those of the expanded tree",
                      dict(wit, got=ja[-800:], want=jb[-800:]))
        return False
    # HTMLDocument in its three root cases: fragment, lone <body>, lone <html> (with and without <head>)
    def roots(x):
        yield "fragment", lambda: x
        yield "body", lambda: ht.tags.body(x, class_="b")
        yield "html", lambda: ht.tags.html(ht.tags.body(x), lang="en")
        yield "html+head", lambda: ht.tags.html(ht.tags.head(ht.tags.title("t")), ht.tags.body("lead", x))

    which = ctx.rng.randrange(4)
    for k, ((shape, mk_a), (_, mk_b)) in enumerate(zip(roots(gen.build(r)), roots(gen.build(exp[0]) if r["k"] == "tag" else ht.TagList(*[gen.build(c) for c in exp])))):
        if k != which and k != 0:
            continue
        root_a = mk_a()
        # (half of the documents carry attribute arguments - class / style / lang - which land on the <html> element)
        dkw = {"class_": "dark", "style": "margin:0;", "lang": "de"} if (ctx.counters["oracle.document"] % 2) else {}
        doc_a = ht.HTMLDocument(root_a, **dkw)
        da = doc_a.render()
        db = ht.HTMLDocument(mk_b(), **dkw).render()
        ctx.count("oracle.document")
        ctx.state("document_roots", shape)
        if da["html"] != db["html"] or dep_vals(da["dependencies"]) != dep_vals(db["dependencies"]):
            ctx.violation("document-expansion-differs", "HTMLDocument.render() (%s root) differs from rendering the expanded tree" % shape,
                          dict(wit, root=shape, got=da["html"][:1200], want=db["html"][:1200]))
            return False
        da2 = doc_a.render()
        if da2["html"] != da["html"]:
            ctx.violation("expansion-not-repeatable", "rendering the same document a second time gives a different result (%s root)" % shape,
                          dict(wit, root=shape, first=da["html"][:1000], second=da2["html"][:1000]))
            return False
        # the content changes after a rendering (a tagifiable with a dependency is added somewhere inside): the next rendering shows it
        root_c = list(roots(gen.build(r)))[k][1]()   # a fresh copy of this root: the other roots share `x`
        doc_a = ht.HTMLDocument(root_c)
        doc_a.render()
        tags_in = [x for x in _live_tags(root_c)]
        if tags_in:
            target = tags_in[ctx.rng.randrange(len(tags_in))]
            if target.name not in ("script", "style", "head", "html") and type(target) is not gen.ExpandingTag:
                late = {"k": "tf", "ret": "list", "c": [{"k": "text", "s": "late;"}, {"k": "dep", "name": "latedep", "version": "3.0", "script": [{"src": "late.js"}]}]}
                target.append(gen.build(late))
                dc = doc_a.render()
                ctx.count("oracle.document_after_change")
                if "late;" not in dc["html"] or "late.js" not in dc["html"] or "latedep" not in [d.name for d in dc["dependencies"]]:
                    ctx.violation("document-stale-after-change", "a tagifiable added to the content after a rendering is missing from the next rendering (%s root)" % shape,
                                  dict(wit, root=shape, got=dc["html"][:1200]))
                    return False
    # error half
    ctx.count("oracle.unexpanded")
    raised = None
    try:
        out = live.get_html_string()
    except Exception as e:
        raised = e
    if has_raw_tf(r) or str_tf_among_siblings(r):
        if raised is None:
            ctx.violation("unexpanded-object-rendered", "get_html_string() returned markup for a tree holding an un-expanded object", dict(wit, output=out[:600]))
            return False
        ctx.count("oracle.unexpanded.raised")
    elif not has_lazy_meta(r):
        if raised is not None:
            ctx.violation("render-raises", "get_html_string() raised %r although nothing needs expansion" % raised, wit)
            return False
    return True


def check_component_in_dependency_head(ctx, rng, ids):
    """Components inside the head= content of a dependency: the document shows their expansions and reports the dependencies
    the expansions carry, exactly as if the expansions had been written there."""
    inner = {"k": "dep", "name": "icons" + str(rng.randrange(3)), "version": "2.%d" % rng.randrange(3), "stylesheet": [{"href": "icons.css"}]}
    payload = [gen.TAG("link", inner, ws=True, attrs=[["rel", {"t": "str", "s": "icon"}], ["href", {"t": "str", "s": ids.next("h") + ".ico"}]])]
    if rng.random() < 0.5:
        payload.append(gen.TAG("meta", ws=True, attrs=[["name", {"t": "str", "s": ids.next("m")}]]))
    ret = "one" if len(payload) == 1 and rng.random() < 0.5 else "list"
    # (the component is also self-rendering: the library asks a dependency's head content for its markup when it lists the
    # dependency, which a component that can only be expanded refuses)
    comp = rng.choice([{"k": "tfobj", "ret": ret, "c": payload, "s": "<!-- displayed on its own -->"},
                       {"k": "tfobj", "ret": "list", "c": [{"k": "tf", "ret": ret, "c": payload}], "s": "<!-- displayed on its own -->"}])
    head = [comp, gen.TAG("meta", ws=True, attrs=[["name", {"t": "str", "s": "m"}]])]
    if rng.random() < 0.5:
        head.reverse()

    late_change = rng.random() < 0.5

    def doc(head_):
        outer = {"k": "dep", "name": "outer", "version": "1.0", "head": head_}
        body = gen.TAG("div", {"k": "text", "s": "x"}, outer)
        if late_change and head_ is head:
            # the component is given its final content only after the dependency (and the page) were put together: what is
            # rendered is what the component expands to when the document is rendered
            import copy as _copy

            draft = _copy.deepcopy(body)
            for x_ in gen.walk(draft["c"][1]["head"][head.index(comp)]):
                if x_["k"] == "dep":
                    x_["version"] = "0.1"
                if x_["k"] == "tag":
                    x_["attrs"] = [["rel", {"t": "str", "s": "draft"}]]
            root = rng_choice(draft)
            dep_ = [c for t_ in _live_tags(root) for c in t_.children if isinstance(c, ht.HTMLDependency) and c.name == "outer"][0]
            live_comp = [c for c in dep_.head if isinstance(c, gen.TFObj)][0]
            live_comp.payload_recipes = comp["c"]
            return ht.HTMLDocument(root)
        root = rng_choice(body)
        return ht.HTMLDocument(root)

    shape = rng.randrange(3)

    def rng_choice(body):
        b = gen.build(body)
        return b if shape == 0 else ht.tags.body(b) if shape == 1 else ht.tags.html(ht.tags.head(ht.tags.title("t")), ht.tags.body(b))

    expanded = []
    for c in head:
        expanded.extend(expand(c))
    wit = {"head": head, "root_shape": shape, "component_filled_in_after_construction": late_change}
    got = doc(head).render()
    want = doc(expanded).render()
    ctx.count("oracle.component_in_dependency_head")
    if got["html"] != want["html"]:
        ctx.violation("document-expansion-differs", "a component inside a dependency's head content is not rendered as its expansion", dict(wit, got=got["html"][:1200], want=want["html"][:1200]))
        return False
    names = lambda r_: [(d.name, str(d.version)) for d in r_["dependencies"]]
    if names(got) != names(want):
        ctx.violation("expansion-deps-differ", "dependencies carried by the expansion of a component inside a dependency's head content are not reported as for the expanded tree",
                      dict(wit, got=names(got), want=names(want)))
        return False
    if inner["name"] not in [n for n, _ in names(got)]:
        ctx.violation("expansion-deps-differ", "the dependency carried by the expansion of a component inside a dependency's head content is not reported", dict(wit, got=names(got)))
        return False
    return True


def check_component_as_jsx_prop(ctx, rng, ids):
    """A component given as a PROP (or child) of a JSX component renders as its expansion there too, and the dependency the
    expansion carries is reported."""
    from ..loader import jsx_mod

    Card = jsx_mod.jsx_tag_create("Card")
    dep_r = {"k": "dep", "name": "icons" + str(rng.randrange(3)), "version": "1.%d" % rng.randrange(3), "script": [{"src": "icons.js"}]}
    payload = gen.TAG(rng.choice(["span", "div", "i"]), {"k": "text", "s": ids.next("t")}, dep_r, ws=False, attrs=[["class", {"t": "str", "s": "icon"}]])
    comp_r = {"k": "tf", "ret": "one", "c": [payload]}
    # (components inside list- or dict-valued props are data of the JSX component, not positions of the tree: the unchanged library
    #  does not expand them, see the C20 notes in DESIGN section 7)
    where = rng.choice(["prop", "prop", "child", "prop_in_nested"])

    def make(x):
        if where == "prop":
            return Card("body", title=x)
        if where == "child":
            return Card("body", x, title="t")
        return Card("body", footer=Card("inner", icon=x))

    a, b = make(gen.build(comp_r)), make(gen.build(expand(comp_r)[0]))
    wit = {"component": comp_r, "where": where}
    ctx.count("oracle.component_as_jsx_prop")
    sa, sb = str(a), str(b)
    if sa != sb:
        ctx.violation("expansion-html-differs", "a component given to a JSX component (%s) is not rendered as its expansion" % where, dict(wit, got=sa[-700:], want=sb[-700:]))
        return False
    da, db = ht.HTMLDocument(ht.div(a)).render(), ht.HTMLDocument(ht.div(b)).render()
    na, nb = [(d.name, str(d.version)) for d in da["dependencies"]], [(d.name, str(d.version)) for d in db["dependencies"]]
    if da["html"] != db["html"] or na != nb or dep_r["name"] not in [n for n, _ in na]:
        ctx.violation("expansion-deps-differ", "dependencies carried by the expansion of a component given to a JSX component (%s) are not reported as for the expanded tree" % where,
                      dict(wit, got=na, want=nb))
        return False
    return True


def check_retry(ctx, r):
    """A failure inside a nested tagify() must not poison later renderings of the same tree."""
    wit = {"recipe": r, "scenario": "tagify fails once, then the tree is rendered again"}
    live = gen.build(r)
    exp = expand(r)
    live_exp = gen.build(exp[0])
    ctx.count("oracle.retry")
    try:
        live.render()
        ctx.violation("flaky-double-did-not-fail", "harness: the first rendering should have failed", wit)
        return False
    except RuntimeError as e:
        if "transient" not in str(e):
            ctx.violation("wrong-error-from-failing-expansion", "first rendering raised %r" % e, wit)
            return False
    for _ in range(2):
        try:
            a = live.render()
        except Exception as e:
            ctx.violation("failed-expansion-poisons-later-rendering", "rendering the same tree again raised %r" % e, wit)
            return False
        if a["html"] != live_exp.render()["html"]:
            ctx.violation("expansion-html-differs", "rendering after a failed attempt differs from the expanded tree", wit)
            return False
    other = ht.div("unrelated", ht.span(gen.build({"k": "tf", "ret": "list", "c": [{"k": "text", "s": "ok"}]})))
    try:
        other.render()
    except Exception as e:
        ctx.violation("failed-expansion-poisons-later-rendering", "an unrelated tree raised %r after a failed rendering" % e, wit)
        return False
    return True


def replay(ctx, w):
    check_case(ctx, w["recipe"])


# ------------------------------------------------------------------ generators
def tf_payload(rng, ids, depth, n=None):
    kinds = ["tag", "tag", "text", "html", "dep", "meta", "tf"]
    out = []
    for _ in range(n if n is not None else rng.choice([0, 1, 2, 3, 5])):
        out.append(rand_node(rng, ids, depth - 1, rng.choice(kinds)))
    return out


def rand_node(rng, ids, depth, kind=None):
    kind = kind or rng.choice(["tag", "tag", "text", "tf", "tf", "tfobj", "html", "dep", "meta", "obj", "list"])
    if depth <= 0 and kind in ("tag", "tf", "tfobj", "list"):
        kind = "text"
    if kind == "tag":
        n = rng.choice([0, 1, 2, 3, 4])
        return gen.TAG(rng.choice(lg.BLOCKS + lg.INLINES + ["br", "hr", "img", "script", "style", "head", "body"]), *[rand_node(rng, ids, depth - 1) for _ in range(n)],
                       ws=rng.random() < 0.5, how=rng.choice(gen.HOWS + ["displayed", "displayed"]), via_fn=False, **({"subclass": True} if rng.random() < 0.06 else {}))
    if kind == "empty":
        return rng.choice([{"k": "text", "s": ""}, {"k": "html", "s": ""}])
    if kind == "text":
        return {"k": "text", "s": ids.next("t") if rng.random() < 0.93 else ""}
    if kind == "html":
        return {"k": "html", "s": "<i>" + ids.next("h") + "</i>" if rng.random() < 0.93 else ""}
    if kind == "obj":
        if rng.random() < 0.3:
            return {"k": "inst", "has": "repr"}   # same class as the instance-level tagifiables, but only self-rendering
        return {"k": "obj", "s": "<u>" + ids.next("o") + "</u>"}
    if kind == "meta":
        return {"k": "meta"}
    if kind == "dep":
        return {"k": "dep", "name": rng.choice(["da", "db", "dc"]), "version": rng.choice(["1.0", "1.10", "1.9"]),
                "script": [{"src": ids.next("f") + ".js"}], "sub": rng.random() < 0.15, "version_object": rng.random() < 0.15}
    if kind == "list":
        return {"k": "list", "t": rng.choice(["list", "tuple", "taglist"]), "c": [rand_node(rng, ids, depth - 1) for _ in range(rng.randint(0, 3))]}
    if kind in ("tf", "tfobj"):
        ret = rng.choice(["list", "list", "list", "one"])
        as_ = rng.choice([None] * 8 + ["str", "meta", "stored", "stored", "sublist", "seq", "inst", "inst", "tagsub", "htmldunder", "htmldunder", "mapping", "mapping"]) if kind == "tf" else None
        if as_ in ("sublist", "tagsub"):
            ret = "list"
        if ret == "one":
            c = [rand_node(rng, ids, depth - 1, rng.choice(["tag", "text", "html", "dep", "meta", "tf", "empty"]))]
        else:
            c = tf_payload(rng, ids, depth)
        r = {"k": kind, "ret": ret, "c": c}
        if as_:
            r["as"] = as_
        if kind == "tfobj":
            r["s"] = "<s>" + ids.next("r") + "</s>"
        return r
    raise ValueError(kind)


def n_tf(r):
    return sum(1 for x in gen.walk(r) if x["k"] in ("tf", "tfobj"))


def nontrivial(r):
    tfs = [x for x in gen.walk(r) if x["k"] in ("tf", "tfobj")]
    return len(tfs) >= 2 and any(x.get("ret") == "list" and len(x["c"]) != 1 for x in tfs)


def run(ctx):
    seen = set()

    def extract(loc):
        cp, i, res = loc.get("cp"), loc.get("i"), loc.get("tagified_child")
        n = len(cp) if cp is not None else -1
        pos = "only" if n == 1 else "first" if i == 0 else "last" if i == n - 1 else "middle"
        kind = type(res).__name__
        return (pos, kind, min(len(res), 6) if isinstance(res, core.TagList) else -1)

    attached = probe.line_probe(core.TagList.tagify, "if isinstance(tagified_child, TagList):", extract, seen.add)
    try:
        _run(ctx)
    finally:
        probe.detach_all()
    ctx.notes["probe_attached"] = attached
    for s in seen:
        ctx.state("splice_loop(position,result kind,len)", s)


def _run(ctx):
    rng = ctx.rng
    ctx.require("oracle.expansion", 500)
    ctx.require("oracle.unexpanded.raised", 200)
    # 1. all sibling sequences of length <= 5 over {plain, tf->0, tf->1, tf->3}
    idx = 0
    maxL = 7 if ctx.thorough else 5
    for L in range(1, maxL + 1):
        for combo in itertools.product("p013", repeat=L):
            idx += 1
            if not ctx.mine(idx):
                continue
            ids = lg.Ids()
            kids = []
            for ch in combo:
                if ch == "p":
                    kids.append({"k": "text", "s": ids.next("t")} if ids.n % 2 else gen.TAG("span", {"k": "text", "s": ids.next("t")}, ws=False))
                else:
                    n = int(ch)
                    kids.append({"k": "tf", "ret": "list",
                                 "c": [gen.TAG("b", {"k": "text", "s": ids.next("e")}, ws=False) if j % 2 == 0 else {"k": "text", "s": ids.next("e")} for j in range(n)]})
            for root in (gen.TAG("div", *kids), {"k": "list", "t": "taglist", "c": kids}):
                ctx.guard(check_case, ctx, root, witness={"recipe": root})
                ctx.case(root, nontrivial=nontrivial(root))
            ctx.count("sibling_sequences")
    ctx.exhaustive["sibling_sequences_len_le_%d_over_plain_tf0_tf1_tf3" % maxL] = True
    # sizes ordinary trees never reach: hundreds of tagifiable siblings, expansions nested 45 deep
    if ctx.shard == 0:
        ids = lg.Ids()
        sibs = []
        for k_ in range(1500):
            n_ = k_ % 4
            sibs.append({"k": "text", "s": ids.next("t")} if k_ % 3 == 0 else
                        {"k": "tf", "ret": "list", "c": [gen.TAG("b", {"k": "text", "s": ids.next("e")}, ws=False) if j % 2 == 0 else {"k": "text", "s": ids.next("e")} for j in range(n_)]})
        sibs.insert(750, {"k": "dep", "name": "da", "version": "1.0", "script": [{"src": "big.js"}]})
        deep = gen.TAG("em", {"k": "text", "s": ids.next("t")}, {"k": "dep", "name": "db", "version": "1.9", "script": [{"src": "deep.js"}]}, ws=False)
        for d_ in range(45):
            deep = {"k": "tf", "ret": "list" if d_ % 2 else "one", "c": [gen.TAG("div" if d_ % 3 else "span", {"k": "text", "s": ids.next("t")}, deep, ws=bool(d_ % 3))] if d_ % 2 == 0
                    else [{"k": "text", "s": ids.next("t")}, deep, {"k": "text", "s": ids.next("t")}]}
        for root in (gen.TAG("div", *sibs), {"k": "list", "t": "taglist", "c": sibs}, gen.TAG("section", deep, {"k": "text", "s": "tail"})):
            ctx.guard(check_case, ctx, root, witness={"recipe": "large deterministic tree"})
            ctx.case(("large", len(str(root))), nontrivial=True)
            ctx.count("very_large_trees")
    # document roots that only exist after expansion (or that an empty expansion sits next to)
    body = gen.TAG("body", {"k": "text", "s": "bt;"}, {"k": "dep", "name": "da", "version": "1.0", "script": [{"src": "r.js"}]}, via_fn=False)
    html = gen.TAG("html", gen.TAG("head", gen.TAG("title", {"k": "text", "s": "T"}), via_fn=False), body, via_fn=False, attrs=[["class", {"t": "str", "s": "page"}], ["lang", {"t": "str", "s": "fr"}]])
    empty = {"k": "tf", "ret": "list", "c": []}
    roots = [[empty, body], [body, empty], [empty, html], [{"k": "tf", "ret": "list", "c": [body]}], [{"k": "tf", "ret": "one", "c": [body]}],
             [{"k": "tf", "ret": "one", "c": [html]}], [{"k": "tf", "ret": "list", "c": [html]}, empty], [empty, empty],
             [{"k": "tf", "as": "stored", "ret": "one", "c": [html]}], [{"k": "tf", "as": "stored", "ret": "one", "c": [body]}],
             [{"k": "tf", "as": "sublist", "ret": "list", "c": [body]}], [{"k": "tf", "as": "stored", "ret": "list", "c": [html]}]]
    # the tagifiable IS the root (rendered directly): an element subclass that expands to something else, with and without payload
    dep_ = {"k": "dep", "name": "da", "version": "1.0", "script": [{"src": "root.js"}]}
    for j, payload in enumerate(([], [{"k": "text", "s": "only text;"}], [gen.TAG("p", {"k": "text", "s": "pt;"}), dep_], [dep_], [{"k": "tf", "ret": "list", "c": [dep_, gen.TAG("i", ws=False)]}])):
        for as_ in ("tagsub",):
            root = {"k": "tf", "ret": "list", "c": payload}
            if as_:
                root["as"] = as_
            if ctx.mine(j):
                ctx.guard(check_case, ctx, root, witness={"recipe": root})
                ctx.case(root, nontrivial=True)
                ctx.count("tagifiable_roots")
    for i, c in enumerate(roots):
        if ctx.mine(i):
            root = {"k": "list", "t": "taglist", "c": c}
            ctx.guard(check_case, ctx, root, witness={"recipe": root})
            ctx.case(root, nontrivial=True)
            ctx.count("expansion_defined_roots")
    for i in range(ctx.budget(30, 3000)):
        ids = lg.Ids()
        inner = {"k": "tf", "as": "flaky", "ret": "list", "c": [{"k": "text", "s": ids.next("f")}, gen.TAG("b", ws=False)]}
        wrap = rng.choice([lambda x: gen.TAG("div", x), lambda x: gen.TAG("div", gen.TAG("span", {"k": "text", "s": "p"}, x, ws=False), gen.TAG("p")),
                           lambda x: gen.TAG("ul", gen.TAG("li", gen.TAG("div", x)), {"k": "tf", "ret": "list", "c": [gen.TAG("li")]})])
        tree = wrap(inner)
        ctx.guard(check_retry, ctx, tree, witness={"recipe": tree})
        ctx.case(("retry", tree), nontrivial=True)
    for i in range(ctx.budget(60, 6000)):
        ids = lg.Ids()
        ctx.guard(check_component_in_dependency_head, ctx, rng, ids, witness={"what": "component in dependency head", "i": i})
        ctx.guard(check_component_as_jsx_prop, ctx, rng, ids, witness={"what": "component as JSX prop", "i": i})
    ex = gen.TAG("div", {"k": "text", "s": "a"}, {"k": "tf", "ret": "list", "c": [{"k": "text", "s": "x"}, gen.TAG("b", ws=False)]}, {"k": "tf", "ret": "list", "c": []})
    ctx.sample({"recipe": ex, "output": gen.build(ex).render()["html"]})
    # 2. random trees
    for _ in range(ctx.budget(800, 900000)):
        ids = lg.Ids()
        d = rng.choice([1, 2, 3, 4, 5])
        if rng.random() < 0.25:
            r = {"k": "list", "t": "taglist", "c": [rand_node(rng, ids, d - 1) for _ in range(rng.randint(0, 5))]}
        else:
            r = rand_node(rng, ids, d, "tag")
        ctx.guard(check_case, ctx, r, witness={"recipe": r})
        ctx.case(r, nontrivial=nontrivial(r))
        for x in gen.walk(r):
            if x["k"] in ("tf", "tfobj"):
                ctx.state("expansion_shapes", (x["k"], x["ret"], min(len(x["c"]), 5), x["c"][0]["k"] if x["c"] else "-"))
