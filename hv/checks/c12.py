"""C12 - dependency URLs and copied files agree (with fault enumeration over missing files)."""

from __future__ import annotations

import hashlib
import itertools
import os
import shutil
import sys
import tempfile

from ..loader import ht
from ..ref import tokenizer, urls
from ..mon import fsaudit
from .. import gen

ID = "C12"
LEVEL = "fault_enumeration"
RULE = ("dependencies with 1-4 scripts and 0-2 stylesheets whose file names contain spaces, %, %20, #, ?, &, quotes, non-ASCII, "
        "nested directories and leading dots; directory sources (absolute and cwd-relative), package sources (htmltools/libtest and "
        "a scratch package), URL sources with/without trailing slash, source-less; libdir in {lib, None, a/b, 'lib x'}; "
        "include_version on/off; destination pre-populated with stale files or not; all_files on/off; save_html on document, tag "
        "and list. Faults: EVERY non-empty subset of missing listed files (dependencies with <=4 files). A case is (dependency, "
        "configuration, missing subset); non-trivial = a file name needs percent-encoding or a fault is injected; distinct by digest")
ASSUMPTIONS = ["sys.addaudithook sees every Python-level file-system mutation made by the library", "dependency names and libdirs stay URL-inert ([A-Za-z0-9_. -])"]
SHARDS = {"quick": 1, "thorough": 16}

NAMES = ["a.js", "b c.js", "100%.js", "x%20y.js", "h#1.js", "q?v=1.js", "amp&x.css", "quo'te.js", "dq\"x.css", "ünï.js", "中文.css",
         "sub/dir/n.js", "sub/.hidden.js", ".dot.css", "sp ace/de ep/f.js", "plus+.js", "semi;colon.css", "tilde~.js", "eq=.js", "bs\\x.js",
         "e\u0301 decomposed.js", "A\u030angstrom.css", "deep/er/and/deeper/f.js", "ﬁ-ligature.js",
         # long names and long paths (each component within the file system's 255-byte limit)
         "long-" + "n" * 230 + ".js", "l" * 200 + "/" + "m" * 200 + "/" + "deep file " + "o" * 180 + ".css", "/".join("d%d" % k for k in range(40)) + "/leaf.js",
         "é" * 110 + ".js"]


def sha(path):
    with open(path, "rb") as f:
        return hashlib.sha256(f.read()).hexdigest()


def snapshot(root):
    out = {}
    if not os.path.exists(root):
        return out
    for dp, dns, fns in os.walk(root):
        for dn in dns:
            out[os.path.relpath(os.path.join(dp, dn), root) + "/"] = "dir"
        for fn in fns:
            p = os.path.join(dp, fn)
            out[os.path.relpath(p, root)] = sha(p)
    return out


def make_source(base, files, extra=True):
    if not files and os.path.basename(base).endswith("the source") and len(base) % 3 == 0:
        extra = False  # sometimes a completely empty source directory
    os.makedirs(base, exist_ok=True)
    for i, rel in enumerate(files):
        p = os.path.join(base, rel)
        os.makedirs(os.path.dirname(p), exist_ok=True)
        with open(p, "w", encoding="utf-8") as f:
            f.write("/* %s #%d */\n" % (rel, i) * (i + 1))
    if extra:
        with open(os.path.join(base, "unlisted.txt"), "w") as f:
            f.write("unlisted")
        os.makedirs(os.path.join(base, "extra dir", ".deep"), exist_ok=True)
        with open(os.path.join(base, "extra dir", ".deep", "z.bin"), "wb") as f:
            f.write(bytes(range(256)))
        with open(os.path.join(base, ".dotfile"), "w") as f:
            f.write("dot")
        # entries that look like build by-products are still part of "the whole source directory"
        os.makedirs(os.path.join(base, "extra dir", "__pycache__"), exist_ok=True)
        for nm in ("extra dir/__pycache__/m.cpython-312.pyc", "extra dir/x.pyc", "extra dir/.DS_Store", "extra dir/Thumbs.db", "node_modules.txt"):
            with open(os.path.join(base, nm), "w") as f:
                f.write(nm)


class Scratch:
    def __init__(self):
        self.root = tempfile.mkdtemp(prefix="hv-c12-")
        self.n = 0
        # a scratch package importable by name
        self.pkgroot = os.path.join(self.root, "pkgs")
        os.makedirs(os.path.join(self.pkgroot, "hvscratchpkg"))
        with open(os.path.join(self.pkgroot, "hvscratchpkg", "__init__.py"), "w") as f:
            f.write("")
        # ... a sub-package of it, and a one-file module that ships its assets next to itself
        os.makedirs(os.path.join(self.pkgroot, "hvscratchpkg", "widgets"))
        with open(os.path.join(self.pkgroot, "hvscratchpkg", "widgets", "__init__.py"), "w") as f:
            f.write("")
        with open(os.path.join(self.pkgroot, "hvscratchmod.py"), "w") as f:
            f.write("")
        sys.path.insert(0, self.pkgroot)

    def dir(self, name="d"):
        self.n += 1
        p = os.path.join(self.root, "%s%d" % (name, self.n))
        os.makedirs(p)
        return p

    def close(self):
        try:
            sys.path.remove(self.pkgroot)
        except ValueError:
            pass
        for m_ in ("hvscratchpkg", "hvscratchpkg.widgets", "hvscratchmod"):
            sys.modules.pop(m_, None)
        shutil.rmtree(self.root, ignore_errors=True)


def rand_case(rng, n_files=None):
    files = rng.sample(NAMES, n_files if n_files is not None else rng.choice([0, 1, 1, 2, 3, 4]))
    scripts = [f for f in files if not f.endswith(".css")]
    sheets = [f for f in files if f.endswith(".css")]
    # (names and versions that are written into the URL as they are and name the directory as they are: characters that
    #  percent-DEcoding leaves alone; '%', '#', '?' in a NAME would make the URL mean something else and are not used)
    return {"name": rng.choice(["dep-1", "my.dep", "d_2", "Dep", "dep-1", "my lib", "d\u00e9p", "a+b", "at@sign,x"]), "version": rng.choice(["1.0", "2.10.3", "0.1", "1.0+build.5", "1!2.0"]),
            "scripts": scripts, "sheets": sheets, "source_kind": rng.choice(["abs", "abs", "abs", "rel", "rel", "pkg", "pkg", "pkg_sub", "pkg_module", "pkg_libtest", "url", "url_slash", "none", "url_root", "url_protocol_relative", "url_slashes", "url_relative", "url_dot"]),
            "all_files": rng.random() < 0.25, "libdir": rng.choice(["lib", "lib", None, "a/b", "lib x"]), "include_version": rng.random() < 0.6,
            **({"page_subdir": rng.choice(["pages", "posts/2024", "p q"]), "libdir": rng.choice(["../lib", "../site_libs", "lib", "./lib", "ABSOLUTE"])} if rng.random() < 0.2 else
               {"libdir": "ABSOLUTE"} if rng.random() < 0.05 else {}),
            "prepopulate": rng.random() < 0.5, "prepopulate_same_names": rng.random() < 0.5, "copied_before": rng.random() < 0.4, "positional_args": rng.random() < 0.4,
            "via": rng.choice(["document", "tag", "list", "copy_to"]), "missing": []}


def build_dep(case, scratch):
    """Create the source tree and the live dependency; returns (dep, source_dir|None, cleanup)."""
    kind = case["source_kind"]
    scripts, sheets = list(case["scripts"]), list(case["sheets"])
    srcdir = None
    cwd = None
    if kind == "pkg_libtest":
        source = {"package": "htmltools", "subdir": "libtest/testdep"}
        scripts, sheets = ["testdep.js"], ["testdep.css"]
        srcdir = os.path.join(os.path.dirname(ht.__file__), "libtest", "testdep")
    elif kind == "abs":
        srcdir = os.path.join(scratch.dir("src"), "the source")
        make_source(srcdir, scripts + sheets)
        source = {"subdir": srcdir}
    elif kind == "rel":
        base = scratch.dir("cwd")
        srcdir = os.path.join(base, "rel dir", "src")
        make_source(srcdir, scripts + sheets)
        source = {"subdir": os.path.join("rel dir", "src")}
        cwd = base
    elif kind == "pkg":
        sub = "assets%d" % scratch.n
        srcdir = os.path.join(scratch.pkgroot, "hvscratchpkg", sub)
        make_source(srcdir, scripts + sheets)
        source = {"package": "hvscratchpkg", "subdir": sub}
    elif kind == "pkg_sub":
        sub = "assets%d" % scratch.n
        srcdir = os.path.join(scratch.pkgroot, "hvscratchpkg", "widgets", sub)
        make_source(srcdir, scripts + sheets)
        source = {"package": "hvscratchpkg.widgets", "subdir": sub}
    elif kind == "pkg_module":
        sub = "modassets%d" % scratch.n
        srcdir = os.path.join(scratch.pkgroot, sub)
        make_source(srcdir, scripts + sheets)
        source = {"package": "hvscratchmod", "subdir": sub}
    elif kind == "url":
        source = {"href": "https://cdn.example/lib"}
    elif kind == "url_slash":
        source = {"href": "https://cdn.example/lib/"}
    elif kind in URL_KINDS:
        source = {"href": URL_KINDS[kind]}
    else:
        source = None
    if case.get("copied_before") and srcdir is not None and kind in ("abs", "rel", "pkg", "pkg_sub", "pkg_module"):
        # history: the same dependency definition was copied successfully earlier in this process
        old = os.getcwd()
        if cwd:
            os.chdir(cwd)
        try:
            earlier = ht.HTMLDependency(case["name"], case["version"], source=source, script=[{"src": s} for s in scripts],
                                        stylesheet=[{"href": s} for s in sheets])
            earlier.copy_to(scratch.dir("earlier"), include_version=case["include_version"])
        finally:
            os.chdir(old)
    for m in case["missing"]:
        os.remove(os.path.join(srcdir, m))
    kw = {}
    if source is not None:
        kw["source"] = source
    dep = ht.HTMLDependency(case["name"], case["version"], script=[{"src": s} for s in scripts], stylesheet=[{"href": s} for s in sheets],
                            all_files=case["all_files"], **kw)
    return dep, srcdir, cwd, scripts, sheets


# more URL sources: the site root, a protocol-relative host, several trailing slashes, a relative location, a query-free path
URL_KINDS = {"url_root": "/", "url_protocol_relative": "//cdn.example/x", "url_slashes": "https://cdn.example/lib//", "url_relative": "../shared/lib", "url_dot": "./"}


def model_dep(case, scripts, sheets):
    d = {"name": case["name"], "version": case["version"]}
    k = case["source_kind"]
    if k in ("url", "url_slash"):
        d["source"] = {"href": "https://cdn.example/lib" + ("/" if k == "url_slash" else "")}
    elif k in URL_KINDS:
        d["source"] = {"href": URL_KINDS[k]}
    elif k != "none":
        d["source"] = {"subdir": "x"}
    return d


SAFE = set("ABCDEFGHIJKLMNOPQRSTUVWXYZabcdefghijklmnopqrstuvwxyz0123456789_.-~/%")


def check_urls(ctx, case, dep, scripts, sheets, wit):
    md = model_dep(case, scripts, sheets)
    for lp in ("lib", None, "a/b", "lib x", "", "https://cdn.example.com/assets/lib", "//cdn.example/x", "a//b", "./lib", "/abs/lib", "lib/", "file:///srv/www/lib"):
        for iv in (True, False):
            ctx.count("oracle.urls")
            d = dep.as_dict(lib_prefix=lp, include_version=iv)
            got = [s["src"] for s in d["script"]] + [s["href"] for s in d["stylesheet"]]
            want = [urls.file_url(md, f, lp, iv) for f in scripts + sheets]
            if got != want:
                ctx.violation("url-form", "as_dict(lib_prefix=%r, include_version=%r) URLs %r, expected %r" % (lp, iv, got[:3], want[:3]), wit)
                return False
            base = urls.base_href(md, lp, iv)
            for u, f in zip(got, scripts + sheets):
                rel = u[len(base):].lstrip("/") if base else u
                if set(rel) - SAFE:
                    ctx.violation("url-unsafe-character", "URL %r contains a character that is not URL-safe" % u, wit)
                    return False
                if urls.unquote(rel) != f:
                    ctx.violation("url-does-not-decode-to-path", "URL %r decodes to %r, path is %r" % (u, urls.unquote(rel), f), wit)
                    return False
    return True


def run_case(ctx, case, scratch):
    wit = {"case": case}
    dep, srcdir, cwd, scripts, sheets = build_dep(case, scratch)
    old_cwd = os.getcwd()
    if cwd:
        os.chdir(cwd)
    try:
        return _run_case(ctx, case, scratch, dep, srcdir, scripts, sheets, wit)
    finally:
        os.chdir(old_cwd)


def _run_case(ctx, case, scratch, dep, srcdir, scripts, sheets, wit):
    if not case["missing"] and not check_urls(ctx, case, dep, scripts, sheets, wit):
        return False
    local = srcdir is not None
    out = scratch.dir("out")
    libdir, iv = case["libdir"], case["include_version"]
    depdir = urls.dep_dir(case["name"], case["version"], iv)
    # the page may sit in a sub-directory of the site, with the library directory given relative to the PAGE ("../lib")
    page_dir = os.path.join(out, case["page_subdir"]) if case.get("page_subdir") else out
    os.makedirs(page_dir, exist_ok=True)
    if libdir == "ABSOLUTE":
        # an absolute library directory (inside the site tree, so that the snapshots see it): URLs carry the absolute path
        libdir = os.path.join(out, "absolute lib dir")
        case = dict(case, libdir=libdir)
        wit = dict(wit, libdir_resolved="<out>/absolute lib dir")
    destdir = os.path.normpath(os.path.join(page_dir, libdir)) if libdir else page_dir
    target = os.path.join(destdir, depdir)
    if case["prepopulate"]:
        os.makedirs(os.path.join(target, "old", "nested"), exist_ok=True)
        if case.get("prepopulate_same_names"):
            # an earlier, different copy: the very file names that will be copied, with other bytes
            for f in scripts + sheets:
                pth = os.path.join(target, f)
                os.makedirs(os.path.dirname(pth), exist_ok=True)
                with open(pth, "w") as fh:
                    fh.write("OLD VERSION OF " + f)
        for p in ("stale.txt", "old/nested/stale2.js", ".stale-hidden"):
            with open(os.path.join(target, p), "w") as f:
                f.write("stale")
        # leftovers NEXT to the target whose names start like it (staging / backup directories of some earlier run or tool):
        # nothing of theirs may end up inside the dependency's directory
        first = (scripts + sheets + ["x.js"])[0].split("/")[0]
        for suffix in (".tmp", ".bak", "~", ".old", "-staging"):
            lo = target + suffix
            os.makedirs(os.path.join(lo, first), exist_ok=True)     # a DIRECTORY named like the first listed file
            with open(os.path.join(lo, "stale-leftover.txt"), "w") as f:
                f.write("stale")
        # a sibling that is not the dependency's directory must survive
        os.makedirs(os.path.join(destdir, "sibling-keep"), exist_ok=True)
        with open(os.path.join(destdir, "sibling-keep", "k.txt"), "w") as f:
            f.write("keep")
    src_before = snapshot(srcdir) if local and "hv-c12" in srcdir else None
    dest_before = snapshot(out)
    file = os.path.join(page_dir, "index.html")
    page_rel = os.path.relpath(file, out)
    via = case["via"]
    exc = None
    ret = None
    with fsaudit.armed() as ev:
        try:
            if via == "copy_to":
                dep.copy_to(destdir, include_version=iv)
            else:
                content = ht.div("body text", dep)
                obj = ht.HTMLDocument(content) if via == "document" else content if via == "tag" else ht.TagList("t", content)
                if via == "document" and case.get("positional_args"):
                    ret = obj.save_html(file, libdir, iv)       # HTMLDocument.save_html takes them positionally as well
                else:
                    ret = obj.save_html(file, libdir=libdir, include_version=iv)
        except Exception as e:
            exc = e
        events = list(ev)
    ctx.count("monitor.fs_runs")
    ctx.count("monitor.fs_events", len(events))
    # the source tree is never modified
    if src_before is not None:
        if snapshot(srcdir) != src_before or fsaudit.under(events, srcdir):
            ctx.violation("source-tree-modified", "the dependency's source directory was modified", dict(wit, events=events[:10]))
            return False
    # ---- faults: a listed file is missing
    if case["missing"] and not case["all_files"]:
        ctx.count("monitor.faults")
        if exc is None:
            ctx.violation("missing-file-not-reported", "copying succeeded although %r is missing" % case["missing"], wit)
            return False
        touched = fsaudit.under(events, target)
        after = snapshot(out)
        if touched or {k: v for k, v in after.items() if k.startswith(os.path.relpath(target, out))} != \
                {k: v for k, v in dest_before.items() if k.startswith(os.path.relpath(target, out))}:
            ctx.violation("target-touched-before-raise", "the dependency's target directory was touched although a listed file is missing",
                          dict(wit, events=touched[:10]))
            return False
        return True
    if exc is not None:
        ctx.violation("copy-raises", "%s raised %r" % (via, exc), wit)
        return False
    after = snapshot(out)
    # ---- URL-sourced and source-less dependencies copy nothing
    if not local:
        mut = [e for e in events if not (via != "copy_to" and e == ("open-for-write", file))]
        if mut or {k: v for k, v in after.items() if k != page_rel} != dest_before:
            ctx.violation("non-local-dependency-copied", "a URL-sourced / source-less dependency caused file-system changes", dict(wit, events=mut[:10]))
            return False
    else:
        rel_t = os.path.relpath(target, out)
        copied = {k[len(rel_t) + 1:]: v for k, v in after.items() if k.startswith(rel_t + os.sep) and k != rel_t + "/"}
        src_snap = snapshot(srcdir)
        if any(k.startswith(("stale", "old", ".stale")) for k in copied):
            ctx.violation("stale-files-survive", "stale contents of the target directory survived", dict(wit, copied=sorted(copied)[:10]))
            return False
        if case["all_files"]:
            if copied != src_snap:
                ctx.violation("all-files-copy-differs", "target directory is not a copy of the whole source directory",
                              dict(wit, missing=sorted(set(src_snap) - set(copied))[:8], extra=sorted(set(copied) - set(src_snap))[:8]))
                return False
        else:
            for f in scripts + sheets:
                if copied.get(f) != src_snap.get(f) or src_snap.get(f) is None:
                    ctx.violation("copied-file-differs", "listed file %r is not copied byte-identically" % f, wit)
                    return False
            extra = [k for k, v in copied.items() if v != "dir" and k not in scripts + sheets]
            if extra:
                ctx.violation("unlisted-files-copied", "files not listed were copied: %r" % extra[:5], wit)
                return False
        if case["prepopulate"] and after.get(os.path.join(os.path.relpath(destdir, out), "sibling-keep", "k.txt").lstrip("./")) is None \
                and after.get(os.path.normpath(os.path.join(os.path.relpath(destdir, out), "sibling-keep", "k.txt"))) is None:
            ctx.violation("sibling-directory-removed", "a sibling of the dependency's directory was removed", wit)
            return False
    if local and not case["missing"] and ctx.rng.random() < 0.3:
        # doing it again over the result of the first time gives the same tree (no accumulation, no dependence on the earlier copy)
        try:
            if via == "copy_to":
                dep.copy_to(destdir, include_version=iv)
            else:
                obj.save_html(file, libdir=libdir, include_version=iv)
        except Exception as e:
            ctx.violation("copy-raises", "second %s over an existing result raised %r" % (via, e), wit)
            return False
        ctx.count("monitor.repeat_copies")
        if snapshot(out) != after:
            ctx.violation("second-copy-differs", "copying again over an existing result changed the destination tree", wit)
            return False
    if via == "copy_to":
        return True
    # ---- the written file
    if ret != file:
        ctx.violation("save_html-return", "save_html returned %r, wrote %r" % (ret, file), wit)
        return False
    ctx.count("oracle.written_file")
    with open(file, encoding="utf-8") as f:
        html = f.read()
    body = html[len("<!DOCTYPE html>\n"):] if html.startswith("<!DOCTYPE html>\n") else html
    try:
        toks = tokenizer.tokenize(body)
    except tokenizer.Forged as fz:
        ctx.violation("written-file-untokenizable", str(fz), wit)
        return False
    found = []
    for t in toks:
        if t[0] == "open" and t[1] in ("script", "link"):
            for a, raw in t[2]:
                if a in ("src", "href"):
                    import html as _h
                    found.append(_h.unescape(raw))
    want_n = len(scripts) + len(sheets)
    if len(found) != want_n:
        ctx.violation("written-file-url-count", "%d dependency URLs in the written file, expected %d" % (len(found), want_n), wit)
        return False
    # as_html_tags emits links before scripts
    for u, f in zip(found, sheets + scripts):
        if not local:
            exp = urls.file_url(model_dep(case, scripts, sheets), f, libdir, iv)
            if u != exp:
                ctx.violation("url-form", "URL %r, expected %r" % (u, exp), wit)
                return False
            continue
        p = os.path.normpath(os.path.join(page_dir, urls.unquote(u)))
        if not os.path.isfile(p):
            ctx.violation("url-names-no-file", "URL %r resolves to %r which is not a regular file" % (u, os.path.relpath(p, out)), wit)
            return False
        if sha(p) != sha(os.path.join(srcdir, f)):
            ctx.violation("url-names-wrong-file", "URL %r names a file that differs from its source %r" % (u, f), wit)
            return False
    return True


def run_siblings_case(ctx, rng, scratch):
    """Several dependencies saved together whose directory names are prefixes / suffixes of one another; then the sources
    change and the same document is saved again into the same place."""
    names = rng.sample(["boot", "boot-icons", "boot-icons-extra", "boot-1", "bootx", "boo"], rng.randint(2, 4))
    iv = rng.random() < 0.6
    libdir = rng.choice(["lib", None, "a/b"])
    out = scratch.dir("out")
    deps, srcs = [], []
    for i, nm in enumerate(names):
        srcdir = os.path.join(scratch.dir("src"), "s")
        files = rng.sample(["a.js", "b c.js", "sub/n.js", "x.css"], rng.randint(1, 3))
        make_source(srcdir, files, extra=False)
        deps.append(ht.HTMLDependency(nm, rng.choice(["1.0", "2.0", "1.0-1"]) if False else rng.choice(["1.0", "2.0"]), source={"subdir": srcdir},
                                      script=[{"src": f} for f in files if f.endswith(".js")], stylesheet=[{"href": f} for f in files if f.endswith(".css")]))
        srcs.append((srcdir, files))
    wit = {"scenario": "sibling dependencies", "names": names, "include_version": iv, "libdir": libdir}
    ctx.count("monitor.sibling_saves")
    file = os.path.join(out, "index.html")
    doc = ht.HTMLDocument(ht.div("t", *deps))

    def verify(tag):
        destdir = os.path.join(out, libdir) if libdir else out
        for d, (srcdir, files) in zip(deps, srcs):
            target = os.path.join(destdir, urls.dep_dir(d.name, str(d.version), iv))
            for f in files:
                p = os.path.join(target, f)
                if not os.path.isfile(p) or sha(p) != sha(os.path.join(srcdir, f)):
                    ctx.violation("copied-file-differs", "%s: file %r of dependency %s is missing or differs from its source" % (tag, f, d.name), wit)
                    return False
            extra = [k for k, v in snapshot(target).items() if v != "dir" and k not in files]
            if extra:
                ctx.violation("stale-files-survive", "%s: unexpected files %r in the directory of %s" % (tag, extra[:4], d.name), wit)
                return False
        return True

    try:
        doc.save_html(file, libdir=libdir, include_version=iv)
    except Exception as e:
        ctx.violation("copy-raises", "saving sibling dependencies raised %r" % e, wit)
        return False
    if not verify("first save"):
        return False
    # the sources change (new bytes, one file more in the listing is not possible without a new definition), a stale file appears
    for srcdir, files in srcs:
        with open(os.path.join(srcdir, files[0]), "a") as fh:
            fh.write("/* changed after the first save */")
    destdir = os.path.join(out, libdir) if libdir else out
    stale = os.path.join(destdir, urls.dep_dir(deps[0].name, str(deps[0].version), iv), "stale-from-elsewhere.txt")
    with open(stale, "w") as fh:
        fh.write("stale")
    try:
        doc.save_html(file, libdir=libdir, include_version=iv)
    except Exception as e:
        ctx.violation("copy-raises", "second save raised %r" % e, wit)
        return False
    return verify("second save after the sources changed")


def run_many_case(ctx, rng, scratch):
    """More dependencies in one page than any batching / pooling threshold; optionally one of them lists a missing file."""
    n = rng.choice([17, 18, 33, 70])
    missing_at = rng.choice([None, 0, n // 2, n - 1, n - 1])
    out = scratch.dir("out")
    base = scratch.dir("src")
    deps, srcs = [], []
    for i in range(n):
        srcdir = os.path.join(base, "s%d" % i)
        f = "f%d.js" % i
        make_source(srcdir, [f], extra=False)
        if i == missing_at:
            os.remove(os.path.join(srcdir, f))
        deps.append(ht.HTMLDependency("many%d" % i, "1.%d" % i, source={"subdir": srcdir}, script={"src": f}))
        srcs.append((srcdir, f))
    via = rng.choice(["document", "tag", "list"])
    content = ht.div("t", *deps)
    obj = ht.HTMLDocument(content) if via == "document" else content if via == "tag" else ht.TagList("t", content)
    wit = {"scenario": "many dependencies", "n": n, "missing_at": missing_at, "via": via}
    ctx.count("monitor.many_dependency_saves")
    file = os.path.join(out, "index.html")
    exc = None
    try:
        obj.save_html(file, libdir="lib")
    except Exception as e:
        exc = e
    if missing_at is not None:
        ctx.count("monitor.faults")
        if exc is None:
            ctx.violation("missing-file-not-reported", "save_html of %d dependencies succeeded although dependency %d lists a missing file" % (n, missing_at), wit)
            return False
        if os.path.exists(os.path.join(out, "lib", "many%d-1.%d" % (missing_at, missing_at))):
            ctx.violation("target-touched-before-raise", "the target directory of the dependency with the missing file was created", wit)
            return False
        return True
    if exc is not None:
        ctx.violation("copy-raises", "save_html of %d dependencies raised %r" % (n, exc), wit)
        return False
    for i, (srcdir, f) in enumerate(srcs):
        p = os.path.join(out, "lib", "many%d-1.%d" % (i, i), f)
        if not os.path.isfile(p) or sha(p) != sha(os.path.join(srcdir, f)):
            ctx.violation("copied-file-differs", "file of dependency %d of %d is missing or differs" % (i, n), wit)
            return False
    return True


def run_links_and_timestamps_case(ctx, rng, scratch):
    """Destination and source states that involve symbolic links and time stamps: a link (dangling, or to a directory with stale
    content) where the library's directory will be; links at the top level of an all_files source; a listed file rewritten with the
    same size and the same modification time between two saves."""
    out = scratch.dir("out")
    srcdir = os.path.join(scratch.dir("src"), "s")
    files = rng.sample(["a.js", "b c.js", "sub/n.js", "x.css"], rng.randint(1, 3))
    make_source(srcdir, files, extra=False)
    scenario = rng.choice(["dangling_link_at_target", "link_to_stale_dir_at_target", "links_in_all_files_source", "same_size_same_mtime_rewrite"])
    all_files = scenario == "links_in_all_files_source"
    iv = rng.random() < 0.6
    dep = ht.HTMLDependency("lnk", "1.0", source={"subdir": srcdir}, script=[{"src": f} for f in files if f.endswith(".js")],
                            stylesheet=[{"href": f} for f in files if f.endswith(".css")], all_files=all_files)
    target = os.path.join(out, "lib", urls.dep_dir("lnk", "1.0", iv))
    wit = {"scenario": scenario, "files": files, "include_version": iv}
    ctx.count("monitor.link_and_timestamp_scenarios")
    ctx.state("link_and_timestamp_scenarios", scenario)
    if scenario == "dangling_link_at_target":
        os.makedirs(os.path.dirname(target))
        os.symlink(os.path.join(scratch.dir("gone"), "purged cache"), target)
    elif scenario == "link_to_stale_dir_at_target":
        elsewhere = os.path.join(scratch.dir("else"), "real dir")
        os.makedirs(elsewhere)
        with open(os.path.join(elsewhere, "stale.txt"), "w") as fh:
            fh.write("stale")
        os.makedirs(os.path.dirname(target))
        os.symlink(elsewhere, target)
    elif all_files:
        shared = os.path.join(os.path.dirname(srcdir), "shared fonts")
        os.makedirs(shared)
        with open(os.path.join(shared, "f.woff"), "wb") as fh:
            fh.write(b"font bytes")
        os.symlink(os.path.join(srcdir, files[0]), os.path.join(srcdir, "latest-link.js"))
        os.symlink(shared, os.path.join(srcdir, "fonts"))
    file = os.path.join(out, "index.html")
    doc = ht.HTMLDocument(ht.div("t", dep))

    def verify(tag):
        for f in files + (["latest-link.js", "fonts/f.woff"] if all_files else []):
            p = os.path.join(target, f)
            if not os.path.isfile(p) or sha(p) != sha(os.path.join(srcdir, f)):
                ctx.violation("copied-file-differs", "%s (%s): %r is missing from the copied library or differs from its source" % (scenario, tag, f), wit)
                return False
        if os.path.exists(os.path.join(target, "stale.txt")):
            ctx.violation("stale-files-survive", "%s: stale content of the directory the link points to survived" % scenario, wit)
            return False
        return True

    try:
        doc.save_html(file, libdir="lib", include_version=iv)
    except Exception as e:
        ctx.violation("copy-raises", "%s: save_html raised %r" % (scenario, e), wit)
        return False
    if not verify("first save"):
        return False
    if scenario == "same_size_same_mtime_rewrite":
        p = os.path.join(srcdir, files[0])
        st = os.stat(p)
        with open(p, "rb") as fh:
            old = fh.read()
        with open(p, "wb") as fh:
            fh.write(bytes((b ^ 1) if chr(b).isalpha() else b for b in old))       # other bytes, same length
        os.utime(p, ns=(st.st_atime_ns, st.st_mtime_ns))
        try:
            doc.save_html(file, libdir="lib", include_version=iv)
        except Exception as e:
            ctx.violation("copy-raises", "%s: second save raised %r" % (scenario, e), wit)
            return False
        return verify("second save")
    return True


def replay(ctx, w):
    scratch = Scratch()
    try:
        if "case" in w:
            run_case(ctx, w["case"], scratch)
    finally:
        scratch.close()


def hot(case):
    return bool(case["missing"]) or any(urls.quote(f) != f for f in case["scripts"] + case["sheets"])


def run(ctx):
    rng = ctx.rng
    ctx.require("monitor.fs_runs", 200)
    ctx.require("monitor.faults", 50)
    ctx.require("oracle.urls", 200)
    ctx.require("oracle.written_file", 50)
    scratch = Scratch()
    try:
        # every file name once, deterministically
        for i, nm in enumerate(NAMES):
            if not ctx.mine(i):
                continue
            for via in ("document", "copy_to"):
                case = {"name": "dep-1", "version": "1.0", "scripts": [nm] if not nm.endswith(".css") else [], "sheets": [nm] if nm.endswith(".css") else [],
                        "source_kind": "abs", "all_files": False, "libdir": "lib", "include_version": True, "prepopulate": True, "via": via, "missing": []}
                ctx.guard(run_case, ctx, case, scratch, witness={"case": case})
                ctx.case(case, nontrivial=hot(case))
                ctx.state("file_names", nm)
        ex = {"name": "dep-1", "version": "1.0", "scripts": ["b c.js", "100%.js"], "sheets": ["中文.css"]}
        d = ht.HTMLDependency("dep-1", "1.0", source={"subdir": "/nonexistent"}, script=[{"src": s} for s in ex["scripts"]], stylesheet={"href": ex["sheets"][0]})
        ctx.sample({"dependency": ex, "as_dict_urls": [s["src"] for s in d.as_dict()["script"]] + [s["href"] for s in d.as_dict()["stylesheet"]]})
        for _ in range(ctx.budget(260, 90000)):
            case = rand_case(rng)
            ctx.guard(run_case, ctx, case, scratch, witness={"case": case})
            ctx.case(case, nontrivial=hot(case))
            ctx.state("configurations", (case["source_kind"], case["libdir"], case["include_version"], case["via"], case["all_files"], case["prepopulate"]))
            # fault enumeration: every non-empty subset of missing listed files
            if case["source_kind"] in ("abs", "rel", "pkg") and rng.random() < (1.0 if ctx.thorough else 0.5):
                listed = case["scripts"] + case["sheets"]
                for k in range(1, len(listed) + 1):
                    for sub in itertools.combinations(listed, k):
                        c2 = dict(case, missing=list(sub), all_files=False)  # the fault clause is about explicitly listed files
                        ctx.guard(run_case, ctx, c2, scratch, witness={"case": c2})
                        ctx.case(c2, nontrivial=True)
                        ctx.state("missing_subset_sizes", (len(listed), k))
                ctx.count("deps_with_all_missing_subsets")
            if rng.random() < 0.15:
                ctx.guard(run_siblings_case, ctx, rng, scratch, witness={"scenario": "sibling dependencies"})
                ctx.case(("siblings", scratch.n), nontrivial=True)
            if rng.random() < 0.12:
                ctx.guard(run_links_and_timestamps_case, ctx, rng, scratch, witness={"scenario": "links and time stamps"})
                ctx.case(("links", scratch.n), nontrivial=True)
            if rng.random() < 0.08:
                ctx.guard(run_many_case, ctx, rng, scratch, witness={"scenario": "many dependencies"})
                ctx.case(("many", scratch.n), nontrivial=True)
            if scratch.n > 400:
                scratch.close()
                scratch = Scratch()
        ctx.exhaustive["missing_file_subsets_of_each_fault_enumerated_dependency"] = True
    finally:
        scratch.close()
