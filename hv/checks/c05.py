"""C05 - no whitespace is ever injected into inline content.

Content leaves carry unique ids and contain no whitespace, so every whitespace (or eol)
character found in a text position of the output is layout.  Three trace rules are
evaluated over the token stream of the independent tokenizer:
  (i)   every maximal subtree without a whitespace-enabled tag occurs as the exact
        concatenation of its open tags, content and close tags, contiguously;
  (ii)  two adjacent visible siblings neither of which contains a whitespace-enabled tag
        are emitted with nothing between them;
  (iii) every layout run touches (immediately before or after) an open or close tag of a
        whitespace-enabled element, or sits at offset 0 (the indent argument)."""

from __future__ import annotations

from ..loader import ht, core
from ..ref import layout, tokenizer
from ..mon import probe
from .. import gen, layoutgen as lg

ID = "C05"
LEVEL = "exploration"
RULE = ("arbitrary nestings (block-inside-inline included) over block/inline/void tags, text, HTML(), _repr_html_ objects, "
        "metadata and dependencies with unique whitespace-free content, depth<=7, all indent/eol choices; every ordered "
        "sibling-kind pair x parent kind x position generated deterministically first. non-trivial = the tree contains "
        "an inline subtree with >=2 nodes AND a whitespace-enabled tag; distinct by (recipe, indent, eol) digest")
ASSUMPTIONS = ["content leaves contain no whitespace, so whitespace in text positions is layout",
               "eol strings consist of whitespace and the sentinel U+241E only"]
SHARDS = {"quick": 1, "thorough": 16}

EOLS = ["\n", "\n", "\r\n", "", " ", "\t\n", "␞\n"]
LAYOUT_CHARS = set(" \t\r\n\f␞")


def tags_preorder(r, out):
    if r["k"] == "list":
        for c in r["c"]:
            tags_preorder(c, out)
    elif r["k"] == "tag":
        out.append(r)
        for c in r["c"]:
            tags_preorder(c, out)
    elif r.get("nodelist") is not None:
        # a list stored as a node: a self-rendering object whose markup holds the tags of its items
        for c in r["nodelist"]:
            tags_preorder(c, out)
    return out


def maximal_inline_subtrees(r, out, top=True):
    """Visible nodes that contain no ws-enabled tag and whose parent does (or is the top)."""
    if r["k"] == "list":
        for c in r["c"]:
            maximal_inline_subtrees(c, out, True)
        return out
    if r["k"] in ("meta", "dep", "headc"):
        return out
    if not lg.contains_ws_tag(r):
        out.append(r)
        return out
    for c in r.get("c", []):
        maximal_inline_subtrees(c, out, False)
    return out


def adjacent_inline_pairs(r, out):
    if r["k"] in ("tag", "list"):
        vis = layout.visible(r)
        for a, b in zip(vis, vis[1:]):
            if not lg.contains_ws_tag(a) and not lg.contains_ws_tag(b):
                out.append((a, b))
        for c in vis:
            adjacent_inline_pairs(c, out)
    return out


def check_output(ctx, r, out, wit, at0_allowed=True, content_ws=False):
    """content_ws: leaves may contain whitespace / eol characters themselves; then only the
    contiguity rules (i) and (ii) are decidable (whitespace in a text position may be content)."""
    ctx.count("oracle.inline_ws")
    # (i) contiguity
    for s in maximal_inline_subtrees(r, []):
        e = layout.inline_str(s)
        if e and e not in out:
            ctx.violation("inline-subtree-not-contiguous", "inline subtree %r is not emitted contiguously" % e[:80], wit)
            return False
        ctx.count("rule_i.subtrees")
    # (ii) adjacency
    for a, b in adjacent_inline_pairs(r, []):
        e = layout.inline_str(a) + layout.inline_str(b)
        if e not in out:
            ctx.violation("whitespace-between-inline-siblings", "adjacent inline siblings separated: expected %r" % e[:80], wit)
            return False
        ctx.count("rule_ii.pairs")
    if content_ws:
        ctx.count("content_ws_cases")
        return True
    # (iii) every layout run touches a tag token of a ws-enabled element
    try:
        toks = tokenizer.tokenize(out, rawtext=())  # content is markup-free, so script/style need no raw-text mode here
    except tokenizer.Forged as f:
        ctx.violation("untokenizable", str(f), wit)
        return False
    model = tags_preorder(r, [])
    opens = [t for t in toks if t[0] == "open"]
    if len(opens) != len(model) or any(t[1] != m["name"] for t, m in zip(opens, model)):
        ctx.violation("tag-sequence", "open tags differ from the model", wit)
        return False
    # ws flag per tag token index
    flag = {}
    stack = []
    oi = 0
    for ti, t in enumerate(toks):
        if t[0] == "open":
            flag[ti] = model[oi]["ws"]
            if not t[3]:
                stack.append(model[oi]["ws"])
            oi += 1
        elif t[0] == "close":
            flag[ti] = stack.pop()
    for ti, t in enumerate(toks):
        if t[0] not in ("text", "raw"):
            continue
        s = t[1]
        # split into runs
        i = 0
        n = len(s)
        while i < n:
            if s[i] in LAYOUT_CHARS:
                j = i
                while j < n and s[j] in LAYOUT_CHARS:
                    j += 1
                ctx.count("rule_iii.runs")
                ok = False
                if i == 0:
                    if t[2] == 0 and at0_allowed:
                        ok = True
                    elif ti > 0 and flag.get(ti - 1):
                        ok = True
                if j == n and ti + 1 < len(toks) and flag.get(ti + 1):
                    ok = True
                if not ok:
                    ctx.violation("layout-whitespace-inside-inline-content",
                                  "layout run %r at offset %d does not touch a tag of a whitespace-enabled element" % (s[i:j], t[2] + i), wit)
                    return False
                i = j
            else:
                i += 1
    return True


def check_case(ctx, r, indent, eol, content_ws=False):
    try:
        obj = gen.build_root(r)
        out = obj.get_html_string(indent, eol)
    except Exception as e:
        ctx.violation("render-raises", "building/rendering raised %r" % e, {"recipe": r, "indent": indent, "eol": eol})
        return False
    wit = {"recipe": r, "indent": indent, "eol": eol, "output": out[:1500], "content_ws": content_ws}
    return check_output(ctx, r, out, wit, content_ws=content_ws)


def add_content_whitespace(rng, r, eol):
    """Give some leaves internal / edge whitespace including the eol string in use."""
    for x in gen.walk(r):
        if x["k"] in ("text", "html") and rng.random() < 0.06:
            x["s"] = ""     # an empty leaf among content that holds line separators of its own
            continue
        if x["k"] in ("text", "html", "obj") and "nodelist" not in x and rng.random() < 0.5:
            mid = rng.choice(["\n", " ", eol or "\n", "\n\n", "\t", " \n  "])
            x["s"] = rng.choice([x["s"] + mid + "z" + x["s"], mid + x["s"], x["s"] + mid, "<pre>" + x["s"] + mid + "q</pre>" if x["k"] != "text" else x["s"] + mid + "q"])


def check_after_mutations(ctx, r, indent, eol):
    """Render, change the tree through the public API (same number of children or not), render again: the three rules hold
    for the changed tree (nothing remembered from the first rendering)."""
    from ..mutate import mutate_pair

    r = gen.unshare(r)
    live = gen.build_root(r)
    live.get_html_string(indent, eol)
    log = []
    for _ in range(ctx.rng.randint(1, 4)):
        m = mutate_pair(ctx.rng, live, r, benign=True)
        if m:
            log.append(m)
            live.get_html_string(indent, eol)
    if not log:
        return True
    out = live.get_html_string(indent, eol)
    ctx.count("oracle.after_mutation")
    return check_output(ctx, r, out, {"recipe_after_mutation": r, "mutations": log, "indent": indent, "eol": eol, "output": out[:1200]})


def check_saved_inline(ctx, r, scratch):
    """The file written by save_html carries inline content unchanged (content may hold CR, FF, NEL, LS, PS ... itself)."""
    import locale
    import os

    if "utf" not in locale.getpreferredencoding(False).lower():
        ctx.count("save_html_skipped_non_utf8_locale")
        return True
    obj = gen.build_root(r)
    f = os.path.join(scratch, "c05.html")
    ctx.count("oracle.saved_inline")
    try:
        obj.save_html(f)
        with open(f, encoding="utf-8", newline="") as fh:
            out = fh.read()
    finally:
        if os.path.exists(f):
            os.remove(f)
    wit = {"recipe": r, "via": "save_html", "output": out[:1200]}
    for sub in maximal_inline_subtrees(r, []):
        e = layout.inline_str(sub)
        if e and e not in out:
            ctx.violation("inline-subtree-not-contiguous", "save_html: inline subtree %r is not in the written file unchanged" % e[:80], wit)
            return False
    return True


def add_exotic_breaks(rng, r):
    for x in gen.walk(r):
        if x["k"] in ("text", "html", "obj") and rng.random() < 0.5:
            x["s"] = x["s"] + rng.choice(["\x0c", "\x85", "\u2028", "\u2029", "\x0b", "\x1c", "\x1e", "a\x0cb"]) + "z" + x["s"]


def check_dependency_heads(ctx, heads, via):
    """Inline content carried by dependencies (their head= markup) obeys the same rule where it is emitted: the head
    contents of adjacent dependencies that hold no whitespace-enabled tag are concatenated with nothing between them."""
    wit = {"dependency_heads": heads, "via": via}
    gen.reset_shared()
    deps = [ht.HTMLDependency("hd%d" % i, "1.0", head=ht.TagList(*[gen.build(c) for c in h])) for i, h in enumerate(heads)]
    ctx.count("oracle.dependency_heads")
    try:
        if via == "textdoc":
            out = ht.HTMLTextDocument("<html><head>@@D@@</head><body>b</body></html>", deps=deps, deps_replace_pattern="@@D@@").render()["html"]
        elif via == "document":
            out = ht.HTMLDocument(ht.div("b", *deps)).render()["html"]
        elif via == "as_dict":
            # each dependency's own head markup as reported by as_dict()
            for d_, h in zip(deps, heads):
                want_one = "".join(layout.inline_str(c) for c in h)
                got_one = d_.as_dict()["head"]
                if want_one not in (got_one or ""):
                    ctx.violation("whitespace-between-inline-siblings", "as_dict()['head'] does not carry the inline head content contiguously",
                                  dict(wit, expected=want_one[:300], output=(got_one or "")[:600]))
                    return False
            return True
        else:
            out = ht.TagList(*[d.as_html_tags() for d in deps]).get_html_string(2)
    except Exception as e:
        ctx.violation("render-raises", "rendering dependency heads raised %r" % e, wit)
        return False
    want = "".join(layout.inline_str(c) for h in heads for c in h)
    if want not in out:
        ctx.violation("whitespace-between-inline-siblings", "inline head content of adjacent dependencies is not emitted contiguously (via %s)" % via,
                      dict(wit, expected=want[:300], output=out[:900]))
        return False
    return True


def check_string_heads(ctx, rng, ids):
    """head= given as a plain string is raw markup, written exactly as given (leading blanks, blank lines and all) wherever
    the dependency's head goes."""
    import htmltools as _h

    mark = ids.next("sh")
    s = rng.choice(["  <!-- %s -->", "    <i>%s</i>\n    <b>x</b>", "\t<u>%s</u>", "<i>%s</i>\n   \n<b>y</b>", " \n  <em>%s</em>\n ", "<x-a>%s</x-a>", "\n\n<s>%s</s>", "  a%s\n    b\n  c"]) % mark
    dep = ht.HTMLDependency("sh", "1.0", head=s)
    wit = {"string_head": s}
    ctx.count("oracle.string_heads")
    views = {"as_html_tags": dep.as_html_tags().get_html_string(), "as_dict": dep.as_dict()["head"] or "", "document": ht.HTMLDocument(ht.div("b", dep)).render()["html"],
             "serialised+recovered": ht.HTMLTextDocument("<head>@@</head>" + dep.serialize_to_script_json().get_html_string(), deps_replace_pattern="@@").render()["html"]}
    old = _h.html_dependency_render_mode
    _h.html_dependency_render_mode = "json"
    try:
        views["json-mode str + text document"] = ht.HTMLTextDocument("<head>@@</head>" + str(ht.span("t", dep)), deps_replace_pattern="@@").render()["html"]
    finally:
        _h.html_dependency_render_mode = old
    for how, out in views.items():
        if s not in out:
            ctx.violation("inline-subtree-not-contiguous", "raw head markup given as a plain string is not written exactly as given (%s)" % how, dict(wit, via=how, output=out[:600]))
            return False
    return True


def check_json_fragment_in_inline(ctx, r, lead):
    """An inline fragment rendered in JSON dependency mode (its serialised dependencies follow its markup), embedded in inline
    content and followed by content that starts with `lead`: after HTMLTextDocument took the scripts out, the inline content is
    what it would be without the dependencies."""
    import htmltools as _h

    if r["k"] != "tag":
        r = gen.TAG("em", r, ws=False, via_fn=False)
    inner = gen.build_root(r)
    dep = ht.HTMLDependency("jf", "1.0", script={"src": "j.js"})
    wit = {"recipe": r, "lead": lead, "scenario": "json fragment in inline content"}
    old = _h.html_dependency_render_mode
    _h.html_dependency_render_mode = "json"
    try:
        frag = str(ht.TagList(inner, dep))
    finally:
        _h.html_dependency_render_mode = old
    plain = inner.get_html_string()
    outer = ht.span(ht.HTML(frag), lead + "next", ht.tags.b("z"), _add_ws=False).get_html_string()
    want = ht.span(ht.HTML(plain), lead + "next", ht.tags.b("z"), _add_ws=False).get_html_string()
    ctx.count("oracle.json_fragment_in_inline")
    got = ht.HTMLTextDocument("<p>@@</p>" + outer, deps_replace_pattern="@@none@@").render()["html"]
    if got != "<p>@@</p>" + want:
        ctx.violation("whitespace-between-inline-siblings", "inline content around a serialised dependency changed when the dependency was taken out",
                      dict(wit, got=got[-300:], want=want[-300:]))
        return False
    return True


def replay(ctx, w):
    if "string_head" in w or w.get("scenario") == "json fragment in inline content":
        return True
    if "recipe_after_mutation" in w:
        return
    if "dependency_heads" in w:
        return check_dependency_heads(ctx, w["dependency_heads"], w["via"])
    check_case(ctx, w["recipe"], w["indent"], w["eol"], w.get("content_ws", False))


def nontrivial(r):
    has_ws = lg.contains_ws_tag(r)
    big_inline = any(gen.size(s) >= 2 for s in maximal_inline_subtrees(r, []))
    return has_ws and big_inline


def run(ctx):
    import shutil
    import tempfile

    ctx.scratch = tempfile.mkdtemp(prefix="hv-c05-")
    try:
        _run_outer(ctx)
    finally:
        shutil.rmtree(ctx.scratch, ignore_errors=True)


def _run_outer(ctx):
    seen = set()

    def extract(loc):
        ch = loc.get("child")
        kind = "tag" if isinstance(ch, ht.Tag) else "obj" if hasattr(ch, "_repr_html_") and not isinstance(ch, (str, ht.HTML)) else "text"
        return (bool(loc.get("first_child")), bool(loc.get("prev_was_add_ws")), kind, bool(getattr(ch, "add_ws", False)))

    attached = probe.line_probe(core.TagList.get_html_string, "prev_or_current_add_ws = prev_was_add_ws", extract, seen.add)
    try:
        _run(ctx)
    finally:
        probe.detach_all()
    ctx.notes["probe_attached"] = attached
    for s in seen:
        ctx.state("layout_state_machine(first_child,prev_was_add_ws,kind,child.add_ws)", s)


def _run(ctx):
    rng = ctx.rng
    ctx.require("oracle.inline_ws", 500)
    ctx.require("rule_i.subtrees", 500)
    ctx.require("rule_ii.pairs", 200)
    ctx.require("rule_iii.runs", 500)
    ids = lg.Ids()
    sk = lg.pair_skeletons(ids, rng, allow_block_in_inline=True)
    for i, (r, cell) in enumerate(sk):
        if not ctx.mine(i):
            continue
        for indent, eol in ((0, "\n"), (3, "␞\n"), (1, "")):
            check_case(ctx, r, indent, eol)
            ctx.case((r, indent, eol), nontrivial=nontrivial(r))
        ctx.state("pair_cells", cell)
    ctx.exhaustive["ordered_sibling_kind_pairs_x_parent_x_position_incl_block_in_inline"] = True
    for _ in range(ctx.budget(150, 15000)):
        ids = lg.Ids()
        heads = []
        for _k in range(rng.randint(1, 4)):
            h = [lg.rand_layout_tree(rng, ids, rng.choice([0, 1, 2]), valid=True, inside_inline=True,
                                     kinds_w={"inline": 3, "text": 3, "html": 1, "obj": 1, "void_inline": 1, "block": 0, "void_block": 0, "meta": 0, "dep": 0, "rawtext": 0})
                 for _j in range(rng.randint(1, 3))]
            if rng.random() < 0.3:
                h.append({"k": "text", "s": ids.next("b") + rng.choice(["\\n", "\\t\\1", "\\g<0>", " sp ", "x\ny"])})
            heads.append(h)
        via = rng.choice(["textdoc", "document", "as_html_tags", "as_dict"])
        ctx.guard(check_dependency_heads, ctx, heads, via, witness={"dependency_heads": heads, "via": via})
        ctx.case(("heads", heads, via), nontrivial=len(heads) >= 2)
    for _ in range(ctx.budget(60, 6000)):
        ids = lg.Ids()
        ctx.guard(check_string_heads, ctx, rng, ids, witness={"scenario": "string heads"})
        r = lg.rand_layout_tree(rng, ids, rng.choice([0, 1, 2]), valid=True, inside_inline=True, root_kind="inline",
                                kinds_w={"inline": 3, "text": 3, "html": 1, "obj": 1, "void_inline": 1, "block": 0, "void_block": 0, "meta": 0, "dep": 0, "rawtext": 0})
        ctx.guard(check_json_fragment_in_inline, ctx, r, rng.choice(["\n", "\r\n", "", " \n", "\n\n"]), witness={"recipe": r, "scenario": "json fragment in inline content"})
    for _ in range(ctx.budget(60, 6000)):
        ids = lg.Ids()
        r = lg.rand_layout_tree(rng, ids, rng.choice([1, 2, 3]), valid=False, kinds_w={"block": 3, "inline": 5, "void_inline": 1, "void_block": 1, "text": 4, "html": 1, "obj": 1, "meta": 0, "dep": 0},
                                   root_kind=rng.choice(["block", "inline"]))
        add_exotic_breaks(rng, r)
        if rng.random() < 0.35 and r["k"] == "tag":
            # the tree's root is the document's own <body> (the user's element, flag and all, is the one that is written)
            r["name"] = "body"
            r["via_fn"] = False
            ctx.count("saved_with_user_body_root")
        ctx.guard(check_saved_inline, ctx, r, ctx.scratch, witness={"recipe": r, "via": "save_html"})
        ctx.case(("saved", r), nontrivial=True)
    # very wide sibling lists (rendering must not depend on how many siblings there are)
    if ctx.shard == 0:
        ids = lg.Ids()
        for n_kids, parent_ws in ((600, True), (1100, False), (513, True), (2100, True), (1700, False)):
            kids = []
            for i in range(n_kids):
                kids.append(lg.leaf("text", ids) if i % 3 else gen.TAG("b", lg.leaf("text", ids), ws=False, via_fn=False))
            wide = gen.TAG("div" if parent_ws else "span", *kids, ws=parent_ws, via_fn=False)
            for indent, eol in ((0, "\n"), (2, "\r\n"), (1, "")):
                check_case(ctx, gen.TAG("section", wide, ws=True, via_fn=False), indent, eol)
                ctx.count("wide_lists")
    ex = gen.TAG("span", gen.T("t1;"), gen.TAG("div", gen.TAG("b", gen.T("t2;"), ws=False), gen.T("t3;")), gen.T("t4;"), ws=False)
    ctx.sample({"recipe": ex, "output": gen.build(ex).get_html_string()})

    w = {"block": 3, "inline": 5, "void_inline": 1, "void_block": 1, "text": 4, "html": 1, "obj": 1, "meta": 1, "dep": 0.5}
    for _ in range(ctx.budget(5000, 4000000)):
        ids = lg.Ids()
        depth = rng.choice([1, 2, 3, 4, 5, 6, 7])
        if rng.random() < 0.2:
            r = {"k": "list", "t": "taglist",
                 "c": [lg.rand_layout_tree(rng, ids, depth - 1, valid=False, kinds_w=w, direct_only_kinds=True) for _ in range(rng.randint(0, 5))]}
        else:
            r = lg.rand_layout_tree(rng, ids, depth, valid=False, kinds_w=w, direct_only_kinds=True, root_kind=rng.choice(["block", "inline", "inline"]))
        indent = rng.choice([0, 0, 1, 2, 4])
        eol = rng.choice(EOLS)
        cws = rng.random() < 0.3
        if cws:
            add_content_whitespace(rng, r, eol)
        check_case(ctx, r, indent, eol, cws)
        if r["k"] == "tag" and not cws and rng.random() < 0.15:
            ctx.guard(check_after_mutations, ctx, r, indent, eol, witness={"recipe": r, "indent": indent, "eol": eol})
        ctx.case((r, indent, eol), nontrivial=nontrivial(r))
        for x in gen.walk(r):
            if x["k"] == "tag" and not x["ws"] and any(c["k"] == "tag" and c["ws"] for c in x["c"]):
                ctx.count("block_inside_inline_nestings")
                break
