"""C18 - output is deterministic across processes and independent of history.

A fixed battery of constructions is rendered in child processes started with different
PYTHONHASHSEED values; inside each child the battery is run forward, reversed, shuffled and
interleaved with unrelated renders; a sample of items is also run alone in fresh
processes.  The parent compares all digests item by item.  head_content naming is checked
as a bijection between names and rendered content over a payload corpus."""

from __future__ import annotations

import hashlib
import json
import os
import random
import subprocess
import sys

ID = "C18"
LEVEL = "exploration"
RULE = ("fixed battery (trees, documents with 2-8 multi-name dependencies, HTMLTextDocument extraction with duplicates, head_content "
        "sets, JSX components, css(), class-helper histories, attribute-merging programs) rendered in child processes with different "
        "PYTHONHASHSEED (quick: 0..7; thorough: 48 values incl. 'random') and, inside each child, forward / reversed / shuffled / "
        "interleaved with unrelated renders, plus single items in fresh processes. A case is (battery item, process, order); "
        "non-trivial = the item involves >=3 string keys (dependency names, attributes, class tokens or props); distinct by item digest")
ASSUMPTIONS = ["the battery is fixed by the seed; a hash-seed-dependent behaviour must show within the seeds tried"]
SHARDS = {"quick": 1, "thorough": 1}
WATCHDOG_S = {"quick": 900, "thorough": 7200}

VERIF = os.path.dirname(os.path.dirname(os.path.dirname(os.path.abspath(__file__))))


def _iadd_copy(nav):
    import copy as _copy

    x = _copy.copy(nav)
    x += ["more"]
    return x


def _extend_into(nav):
    from ..loader import ht

    x = ht.TagList("lead")
    x.extend(nav)
    return x


# ------------------------------------------------------------------ battery (child side imports the library)
def battery(seed, n):
    from . import c01, c11, c13, c16, c20, c03
    from .. import gen

    rng = random.Random("battery/%d" % seed)
    items = []
    kinds = ["tree", "doc", "doc", "textdoc", "headc", "jsx", "css", "classes", "attrs", "typed_attrs", "jsonmode", "retry", "shared", "longtwin", "dyninst", "bigrepr", "headc_list", "headc_big", "doccopy", "root_reuse", "saved_then_rendered", "unordered", "shared_fragment"]
    for i in range(n):
        k = kinds[i % len(kinds)]
        if k == "tree":
            items.append((k, gen.rand_tree(rng, depth=rng.choice([2, 3, 4]))))
        elif k == "doc":
            case = c11.rand_case(rng)
            # make sure several differently named dependencies are present
            from .. import layoutgen as lg
            ids = lg.Ids()
            extra = []
            for j, nm in enumerate(rng.sample(["zeta", "alpha", "mid", "beta", "omega", "k2", "aa", "dd"], rng.randint(2, 8))):
                d = c11.rand_dep(rng, ids)
                d["name"] = nm
                if not d["version"].replace(".", "").isdigit():
                    d["version"] = "1.0"
                extra.append(d)
            case["content"] = case["content"] + [] if case["shape"] not in ("fragment", "list") else case["content"] + extra
            items.append((k, case))
        elif k == "textdoc":
            nd = rng.randint(2, 5)
            recipes = [c13.rand_dep_recipe(rng, j, benign_head=True) for j in range(nd)]
            for r in recipes:
                r["name"] = "".join(ch for ch in r["name"] if ch.isalnum())
            order = [rng.randrange(nd) for _ in range(rng.randint(3, 8))]
            items.append((k, {"deps": recipes, "order": order}))
        elif k == "headc":
            payloads = [[gen.TAG("title", {"k": "text", "s": "T%d" % rng.randint(1, 4)})] if rng.random() < 0.6 else
                        [gen.TAG("meta", attrs=[["name", {"t": "str", "s": "m%d" % rng.randint(1, 4)}]]), {"k": "html", "s": "<link rel=\"x%d\">" % rng.randint(1, 3)}]
                        for _ in range(rng.randint(3, 7))]
            items.append((k, payloads))
        elif k == "jsx":
            items.append((k, c20.rand_comp(rng, c20.Counter(), rng.choice([1, 2, 3]))))
        elif k == "css":
            keys = rng.sample(c16.CSS_KEYS, rng.randint(2, 6))
            items.append((k, {"keys": keys, "vals": [rng.choice(["a", 1, 2.5, None, "b c"]) for _ in keys]}))
        elif k == "classes":
            ops = []
            for _ in range(rng.randint(3, 10)):
                ops.append(["add" if rng.random() < 0.6 else "remove", rng.choice(c16.TOKENS[:8]), rng.random() < 0.5])
            items.append((k, ops))
        elif k == "retry":
            # a rendering that fails inside a nested tagify(), then the same tree rendered again
            inner = {"k": "tf", "as": "flaky", "ret": "list", "c": [{"k": "text", "s": "f%d" % i}, gen.TAG("b", ws=False)]}
            items.append((k, gen.TAG("div", gen.TAG("span", {"k": "text", "s": "p"}, inner, ws=False), gen.TAG("p", {"k": "text", "s": "q"}))))
        elif k == "dyninst":
            # instances of ONE class that differ in the protocol methods they carry: which kind was met first must not matter
            items.append((k, {"has": None if (i // len(kinds)) % 5 == 4 else "tagify" if i < n // 2 else "repr", "n": i}))
        elif k == "bigrepr":
            # short-lived self-rendering objects with large markup, one after the other (addresses get re-used)
            items.append((k, {"sizes": [rng.choice([100, 2047, 2048, 3000, 5000, 70000]) for _ in range(rng.randint(3, 8))], "n": i}))
        elif k == "shared_fragment":
            # a fragment shared by many pages; other pages are put together FROM it (sum, +, *, slices, copies) and then completed
            items.append((k, {"n": i, "how": rng.sample(["sum1", "sum2", "zero_plus", "plus_empty", "empty_plus", "times1", "slice", "taglist", "copy", "iadd_copy", "tagify", "extend_into"], rng.randint(3, 8))}))
        elif k == "unordered":
            # unordered collections of strings where a value is expected: accepted or refused, the outcome is the same in every process
            items.append((k, {"tokens": rng.sample(["btn", "btn-primary", "active", "shadow", "rounded", "w-100", "mt-3", "lead", "x", "y"], rng.randint(4, 8)), "n": i}))
        elif k == "headc_list":
            items.append((k, {"n": i % 4, "extra": rng.randint(1, 3)}))
        elif k == "headc_big":
            # payloads far larger than any chunk size, alike except near the end / in the middle / at the start
            items.append((k, {"size": rng.choice([65536, 65537, 70000, 131072 + 5, 200001]), "where": rng.choice(["end", "end", "middle", "start"]), "n": i}))
        elif k == "doccopy":
            items.append((k, {"n": i, "append_to": rng.choice(["copy", "original"]), "attrs": rng.random() < 0.5}))
        elif k == "saved_then_rendered":
            items.append((k, {"n": i % 5, "libdir": rng.choice(["assets", "assets", None, "a/b"]), "iv": rng.random() < 0.5}))
        elif k == "root_reuse":
            items.append((k, {"n": i, "root_attrs": rng.random() < 0.4, "root": rng.choice(["html", "html", "body"])}))
        elif k == "longtwin":
            # a long text with metacharacters, once as plain text and (in another item) as HTML(): which came first must not matter
            txt = "long <b>text</b> & more " * 4 + "#%d" % ((i // len(kinds)) % 2)
            # (the first half of the battery holds the HTML() twins, the second half the plain ones: whichever order a process runs
            #  the battery in, forward and reversed processes meet the two kinds in opposite order)
            items.append((k, {"s": txt, "html": i < n // 2, "also_attr": rng.random() < 0.5}))
        elif k == "shared":
            items.append((k, {"kids": [gen.rand_tree(rng, depth=1), {"k": "text", "s": "sh%d" % i}][: rng.randint(1, 2)],
                              "attrs": [["class_", {"t": "str", "s": "c"}], ["id", {"t": "str", "s": "i"}]][: rng.randint(0, 2)], "lone": rng.random() < 0.5}))
        elif k == "jsonmode":
            # str() in JSON dependency mode; dependencies across items share name and version but differ in content
            deps = [{"k": "dep", "name": rng.choice(["jq", "bs"]), "version": rng.choice(["1.0", "2.0"]),
                     "script": [{"src": "f%d.js" % rng.randint(1, 5)}], "meta": {"name": "m", "content": "c%d" % rng.randint(1, 4)}} for _ in range(rng.randint(1, 3))]
            items.append((k, gen.TAG("div", {"k": "text", "s": "j"}, *deps)))
        elif k == "typed_attrs":
            # value-equal but differently typed attribute values (True == 1 == 1.0, False == 0 == 0.0)
            pool = [{"t": "true"}, {"t": "false"}, {"t": "num", "v": 1}, {"t": "num", "v": 0}, {"t": "num", "v": 1.0}, {"t": "num", "v": 0.0},
                    {"t": "str", "s": "1"}, {"t": "str", "s": ""}, {"t": "none"}, {"t": "num", "v": -0.0}]
            names = ["checked", "disabled", "cx", "r", "x", "value", "tabindex"]
            items.append((k, [[nm, rng.choice(pool)] for nm in rng.sample(names, rng.randint(2, 5))]))
        else:
            items.append((k, c03.rand_case(rng)))
    return items


def run_item(kind, r):
    """One battery item; an exception is part of the observable outcome (it must not depend on history either)."""
    try:
        return _run_item(kind, r)
    except Exception as e:
        return {"html": "raised " + type(e).__name__ + ": " + str(e)[:80]}


def _run_item(kind, r):
    from ..loader import ht
    from .. import gen
    from . import c11, c13, c20
    from ..attrprog import run_case as run_attr

    if kind == "tree":
        t = gen.build(r)
        first = str(t)
        return {"html": _d(first), "same_when_rendered_again": str(t) == first and t.get_html_string() == first}
    if kind == "doc":
        content = c11.strip_marks(r["content"])
        doc = ht.HTMLDocument(*[gen.build(c) for c in content], **{k: gen.build_attr_value(v) for k, v in r["kw"]})
        out = doc.render(lib_prefix=r["lib_prefix"], include_version=r["include_version"])
        # the very same document object rendered again: what was rendered before must not matter
        again = doc.render(lib_prefix=r["lib_prefix"], include_version=r["include_version"])
        ok = again["html"] == out["html"]
        # ... and after the content was changed in place (no append() on the document) the next rendering shows the change
        tags_ = [x for c in doc._content for x in ([c] if isinstance(c, ht.Tag) else [])]
        if tags_ and tags_[0].name not in ("script", "style", "head", "html"):
            tags_[0].append("CHANGED-IN-PLACE")
            third = doc.render(lib_prefix=r["lib_prefix"], include_version=r["include_version"])["html"]
            ok = ok and "CHANGED-IN-PLACE" in third
        return {"html": _d(out["html"]), "deps": [d.name + "@" + str(d.version) for d in out["dependencies"]],
                "same_when_rendered_again": ok}
    if kind == "dyninst":
        o = gen.build({"k": "inst", "has": r["has"]})
        t = ht.div("lead", ht.span(o), o)
        if r["has"] is None:
            try:
                t2 = ht.div(gen.build({"k": "inst", "has": "repr"}))
                t2.children.data.append(o)   # not a child value: rendering must refuse it, whatever was rendered before
                return {"html": _d(str(t2))}
            except Exception as e:
                return {"html": "raised " + type(e).__name__}
        return {"html": _d(str(t) + "|" + t.render()["html"] + "|" + str(ht.TagList(o, "x").tagify()))}
    if kind == "shared_fragment":
        import copy as _copy

        nav = ht.TagList(ht.tags.a("home %d" % (r["n"] % 3), href="/"), ht.head_content(ht.tags.title("site")))
        page = lambda: ht.HTMLDocument(ht.div(nav, "index")).render()   # noqa: E731
        first = page()
        makers = {"sum1": lambda: sum([nav]), "sum2": lambda: sum([nav, ht.TagList("about")]), "zero_plus": lambda: 0 + nav, "plus_empty": lambda: nav + [],
                  "empty_plus": lambda: [] + nav, "times1": lambda: nav * 1, "slice": lambda: nav[:], "taglist": lambda: ht.TagList(nav), "copy": lambda: _copy.copy(nav),
                  "iadd_copy": lambda: _iadd_copy(nav), "tagify": lambda: nav.tagify(), "extend_into": lambda: _extend_into(nav)}
        kinds_ = []
        for how in r["how"]:
            try:
                other = makers[how]()
                kinds_.append(type(other).__name__)
                if isinstance(other, ht.TagList):
                    other.append(ht.tags.footer("page footer"), ht.head_content(ht.tags.meta(name="x", content="y")))
                    str(other)
            except Exception as e:
                kinds_.append("raised " + type(e).__name__)
        again = page()
        ok = again["html"] == first["html"] and [d.name for d in again["dependencies"]] == [d.name for d in first["dependencies"]] and len(nav) == 2
        return {"html": _d(first["html"] + "|" + ",".join(kinds_)), "same_when_rendered_again": ok}
    if kind == "unordered":
        toks = r["tokens"]
        outs = []
        for mk in (lambda: ht.div(ht.span("x", class_=set(toks)), id="a"), lambda: ht.div(frozenset(toks)), lambda: ht.div({"class": set(toks)}),
                   lambda: ht.div().add_class(set(toks)), lambda: ht.div(set(toks), "tail"), lambda: ht.TagList(set(toks)),
                   lambda: ht.div(data_x=dict.fromkeys(toks).keys()),
                   lambda: ht.div(aria_describedby=tuple(toks)), lambda: ht.div(class_=list(toks)),
                   lambda: ht.HTMLDocument(ht.div("x"), class_=set(toks)).render()["html"], lambda: ht.div().add_style(frozenset(toks)),
                   lambda: ht.head_content(set(toks)).name):
            try:
                outs.append(str(mk()))
            except Exception as e:
                outs.append("raised " + type(e).__name__)
        return {"html": _d("|".join(outs))}
    if kind == "bigrepr":
        outs, ok = [], True
        for j, size in enumerate(r["sizes"]):
            body = ("<i>item %d/%d of %d</i>" % (r["n"], j, size)).ljust(size, "-")
            o = gen.ReprObj(body)
            out = ht.div(o, "tail").get_html_string()
            ok = ok and body in out
            o.s = body.replace("item", "ITEM")       # the object changed: the next rendering shows its present markup
            ok = ok and o.s in ht.TagList(o).get_html_string() and o.s in str(ht.span(o))
            outs.append(out)
            del o
        return {"html": _d("".join(outs)), "same_when_rendered_again": ok}
    if kind == "headc_list":
        mk = lambda: ht.TagList(ht.tags.title("list-payload %d" % r["n"]))
        tl = mk()
        hc1 = ht.head_content(tl)
        n1 = hc1.name
        doc1 = ht.HTMLDocument(ht.div(hc1)).render()["html"]
        for j in range(r["extra"]):
            tl.append(ht.tags.meta(name="later%d" % j))
        hc2 = ht.head_content(tl)
        hc3 = ht.head_content(mk())
        full = mk()
        for j in range(r["extra"]):
            full.append(ht.tags.meta(name="later%d" % j))
        hc4 = ht.head_content(full)
        both = ht.HTMLDocument(ht.div(hc1, hc3, "x", hc2, hc4)).render()
        ok = (hc3.name == n1 and hc1.name == n1 and hc2.name != n1 and hc4.name == hc2.name
              and ht.HTMLDocument(ht.div(hc1)).render()["html"] == doc1 and "later0" not in doc1
              and both["html"].count("<title>list-payload") == 2 and both["html"].count('name="later0"') == 1
              and [d.name for d in both["dependencies"]] == [n1, hc2.name])
        return {"html": _d(both["html"]), "names": [n1, hc2.name], "same_when_rendered_again": ok}
    if kind == "headc_big":
        base = "/* %d */" % r["n"] + "x" * r["size"]
        cut = {"end": len(base) - 3, "middle": len(base) // 2, "start": 12}[r["where"]]
        a_, b_ = base, base[:cut] + "Y" + base[cut + 1:]
        ha, hb, ha2 = ht.head_content(ht.tags.style(a_)), ht.head_content(ht.tags.style(b_)), ht.head_content(ht.tags.style(a_))
        out = ht.HTMLDocument(ht.div(ha, hb, ha2)).render()
        ok = ha.name != hb.name and ha.name == ha2.name and out["html"].count(a_) == 1 and out["html"].count(b_) == 1 and [d.name for d in out["dependencies"]] == [ha.name, hb.name]
        return {"html": _d(out["html"]), "names": [ha.name, hb.name], "same_when_rendered_again": ok}
    if kind == "doccopy":
        import copy as _copy

        mk = lambda: ht.HTMLDocument(ht.div("doc %d" % r["n"], ht.HTMLDependency("dc", "1.0", script={"src": "dc.js"})), **({"lang": "en"} if r["attrs"] else {}))  # noqa: E731
        doc, fresh = mk(), mk()
        variant = _copy.copy(doc)
        first, second = (variant, doc) if r["append_to"] == "copy" else (doc, variant)
        first.append(ht.p("only in one of them"), ht.head_content(ht.tags.title("variant %d" % r["n"])))
        a_ = second.render()
        b_ = fresh.render()
        ok = a_["html"] == b_["html"] and [d.name for d in a_["dependencies"]] == [d.name for d in b_["dependencies"]] and "only in one of them" in first.render()["html"]
        return {"html": _d(a_["html"]), "same_when_rendered_again": ok}
    if kind == "root_reuse":
        mk = (lambda: ht.tags.html(ht.tags.body("page %d" % r["n"]), **({"id": "root"} if r["root_attrs"] else {}))) if r["root"] == "html" else \
             (lambda: ht.tags.body("page %d" % r["n"], **({"id": "root"} if r["root_attrs"] else {})))     # noqa: E731
        pg, pristine = mk(), mk()
        first_doc = ht.HTMLDocument(pg, lang="en", class_="first", style="margin:0;", id="root-id", title="t").render()["html"]
        later = (str(pg), ht.HTMLDocument(pg).render()["html"], ht.HTMLDocument(pg, lang="fr").render()["html"])
        want = (str(pristine), ht.HTMLDocument(mk()).render()["html"], ht.HTMLDocument(mk(), lang="fr").render()["html"])
        return {"html": _d("|".join(later)), "first_document": _d(first_doc), "same_when_rendered_again": later == want}
    if kind == "longtwin":
        x = ht.HTML(r["s"]) if r["html"] else r["s"]
        t = ht.div(x, title=r["s"]) if r["also_attr"] else ht.div(x)
        return {"html": _d(t.get_html_string() + ht.TagList("a", x).get_html_string())}
    if kind == "shared":
        # two tags built from the same child list / attribute map; changing one must not change what the other renders
        shared_kids = ht.TagList(*[gen.build(c) for c in r["kids"]])
        shared_attrs = ht.Tag("x", **{n: gen.build_attr_value(v) for n, v in r["attrs"]}).attrs
        a = ht.div(shared_kids) if r["lone"] else ht.div(shared_attrs, shared_kids, "z")
        b = ht.tags.section(shared_kids) if r["lone"] else ht.tags.section(shared_attrs, shared_kids)
        before = (str(b), str(shared_kids))
        a.append("appended", ht.span("s"))
        a.add_class("added")
        a.attrs["data-a"] = "1"
        ok = (str(b), str(shared_kids)) == before
        # a list of numbers the caller keeps using after it was handed to child operations: still the caller's numbers
        vals = [1, 2.5, 0, True]
        c1, c2 = ht.div(), ht.span("s")
        c1.extend(vals)
        c2.children += vals
        c3 = ht.TagList(*vals) + vals
        c2.insert(0, vals)
        ok = ok and vals == [1, 2.5, 0, True] and [type(v_) for v_ in vals] == [int, float, int, bool] and len(c3) == 8
        # dependencies built without script / stylesheet / meta each have their own (empty) lists
        d1, d2 = ht.HTMLDependency("plain-a", "1.0"), ht.HTMLDependency("plain-b", "1.0")
        hc_other = ht.head_content(ht.tags.title("other"))
        d1.script.append({"src": "leak.js"})
        d1.stylesheet.append({"href": "leak.css"})
        d1.meta.append({"name": "leak", "content": "x"})
        ok = ok and d2.script == [] and d2.stylesheet == [] and d2.meta == [] and hc_other.script == [] and "leak" not in str(ht.HTMLDocument(ht.div(d2, hc_other)).render()["html"])
        # head_content: the name and the content belong to the payload as it was when head_content() was called; a later,
        # equal payload is not affected by what happened to the first one afterwards
        t1 = ht.tags.title("original")
        hc1 = ht.head_content(t1)
        t1.append(" then changed")
        hc2 = ht.head_content(ht.tags.title("original"))
        out2 = ht.HTMLDocument(ht.div(hc2)).render()["html"]
        ok = ok and "<title>original</title>" in out2 and "then changed" not in out2
        return {"html": _d(str(a) + str(b)), "same_when_rendered_again": ok}
    if kind == "textdoc":
        deps = [gen.build(x) for x in r["deps"]]
        sers = [d.serialize_to_script_json(indent=2).get_html_string() for d in deps]
        text = "<html><head>PH</head><body>" + "".join("<p>%d</p>%s" % (i, sers[j]) for i, j in enumerate(r["order"])) + "</body></html>"
        doc = ht.HTMLTextDocument(text, deps_replace_pattern="PH")
        out = doc.render()
        first_deps = [d.name + "@" + str(d.version) for d in out["dependencies"]]
        # what render() returned is the caller's: re-pointing / renaming those objects does not change the document
        for d_ in out["dependencies"]:
            d_.name = d_.name + "-renamed-by-the-caller"
            d_.source = {"href": "https://mirror.example/x"}
            d_.script.append({"src": "added-by-the-caller.js"})
        again = doc.render()
        out = dict(out, dependencies=[])
        if [d.name + "@" + str(d.version) for d in again["dependencies"]] != first_deps:
            again = {"html": "DIFFERENT DEPENDENCIES", "dependencies": []}
        out["dependencies"] = again["dependencies"]
        return {"html": _d(out["html"]), "deps": [d.name + "@" + str(d.version) for d in out["dependencies"]], "ser": _d("".join(sers)),
                "same_when_rendered_again": again["html"] == out["html"] and len(again["dependencies"]) == len(out["dependencies"])}
    if kind == "headc":
        hcs = [ht.head_content(*[gen.build(c) for c in p]) for p in r]
        out = ht.HTMLDocument(ht.div(*hcs, "x")).render()
        return {"html": _d(out["html"]), "names": [h.name for h in hcs], "deps": [d.name for d in out["dependencies"]]}
    if kind == "jsx":
        comp = c20.build(r)
        t = comp.tagify()
        import htmltools as _h
        old_mode = _h.html_dependency_render_mode
        _h.html_dependency_render_mode = "json"
        try:
            with_deps = str(comp)
        finally:
            _h.html_dependency_render_mode = old_mode
        return {"html": _d(str(comp)), "json_mode": _d(with_deps), "deps": [d.name + "@" + str(d.version) for d in t.get_dependencies(dedup=False)],
                "document": _d(ht.HTMLDocument(ht.div(comp)).render()["html"])}
    if kind == "css":
        return {"html": _d(repr(ht.css(**dict(zip(r["keys"], r["vals"])))))}
    if kind == "classes":
        t = ht.div(class_="foo bar  foo")
        for op, tok, pre in r:
            if op == "add":
                t.add_class(tok, prepend=pre)
            else:
                t.remove_class(tok)
        return {"html": _d(str(t))}
    if kind == "retry":
        t = gen.build(r)
        outs = []
        for _ in range(3):
            try:
                outs.append(t.render()["html"])
            except Exception as e:
                outs.append("raised " + type(e).__name__ + ": " + str(e)[:60])
        return {"html": _d("|".join(outs)), "attempts": [o[:24] for o in outs]}
    if kind == "jsonmode":
        import htmltools as _h

        old = _h.html_dependency_render_mode
        _h.html_dependency_render_mode = "json"
        try:
            # (a conversion that fails - and whose error the caller handles - comes first: it leaves nothing behind)
            class _NotExpanded:
                def tagify(self):
                    return self

            for bad in (ht.div("x", ht.HTMLDependency("lost", "1.0"), _NotExpanded()), ht.TagList(ht.span(_NotExpanded()))):
                try:
                    str(bad)
                except Exception:
                    pass
            t = gen.build(r)
            out = str(t)
            still_json = _h.html_dependency_render_mode == "json"
        finally:
            _h.html_dependency_render_mode = old
        n_ser = out.count('<script type="application/json" data-html-dependency="">')
        return {"html": _d(out), "same_when_rendered_again": still_json and n_ser == len(t.get_dependencies())}
    if kind == "saved_then_rendered":
        import shutil
        import tempfile

        d_ = tempfile.mkdtemp(prefix="hv-c18-")
        try:
            src = os.path.join(d_, "src")
            os.makedirs(src)
            with open(os.path.join(src, "f.js"), "w") as fh:
                fh.write("/* f */")
            mk = lambda: ht.HTMLDocument(ht.div("doc %d" % r["n"], ht.HTMLDependency("filedep", "1.%d" % r["n"], source={"subdir": src}, script={"src": "f.js"}),   # noqa: E731
                                                ht.HTMLDependency("urldep", "2.0", source={"href": "https://cdn.example/u"}, stylesheet={"href": "u.css"})))
            doc, fresh = mk(), mk()
            doc.save_html(os.path.join(d_, "out", "index.html") if False else os.path.join(d_, "index.html"), libdir=r["libdir"], include_version=r["iv"])
            after = doc.render()
            ok = after["html"] == fresh.render()["html"] and doc.render(lib_prefix="lib")["html"] == after["html"]
            ok = ok and doc.render(lib_prefix=None, include_version=False)["html"] == fresh.render(lib_prefix=None, include_version=False)["html"]
            return {"html": _d(after["html"].replace(src, "SRC")), "same_when_rendered_again": ok}
        finally:
            shutil.rmtree(d_, ignore_errors=True)
    if kind == "typed_attrs":
        t = ht.Tag("input", **{n: gen.build_attr_value(v) for n, v in r})
        css_ = ht.css(**{n: gen.build_attr_value(v) for n, v in r if v["t"] in ("num", "str")})
        return {"html": _d(t.get_html_string() + repr(css_))}
    if kind == "attrs":
        tag, _ = run_attr(r)
        return {"html": _d(tag.get_html_string())}
    raise ValueError(kind)


def _d(s):
    return hashlib.sha256(s.encode("utf-8", "surrogatepass")).hexdigest()[:20]


def saved_files_main():
    """Child side of the environment battery: files written by save_html(), as bytes."""
    import locale
    import shutil
    import tempfile
    from ..loader import ht

    d = tempfile.mkdtemp(prefix="hv-c18-")
    res = {"preferred_encoding": locale.getpreferredencoding(False)}
    dep = ht.HTMLDependency("d\u00e9p", "1.0", source={"href": "https://cdn.example/\u00fc"}, script={"src": "s.js"}, meta={"name": "m", "content": "caf\u00e9"})
    # a library with a real (ASCII-named) file, copied to an ABSOLUTE library directory that is the same in every child process
    absdir = os.path.join(os.environ.get("HV_C18_ABSDIR") or tempfile.mkdtemp(prefix="hv-c18-abs-"), "absolute libdir")
    src = os.path.join(d, "src")
    os.makedirs(src)
    with open(os.path.join(src, "f.js"), "w") as fh:
        fh.write("/* f */")
    filedep = ht.HTMLDependency("filedep", "1.0", source={"subdir": src}, script={"src": "f.js"})
    urldep = ht.HTMLDependency("urldep", "2.0", source={"href": "https://cdn.example/w"}, script=[{"src": "caf\u00e9 widget.js"}, {"src": "\u4e2d.js"}], stylesheet={"href": "\u00fc.css"})
    items = {
        "non_ascii_file_names_in_urls": lambda: ht.HTMLDocument(ht.div("x", urldep)),
        "ascii_tag": lambda: ht.div("plain ascii", ht.span("x"), title="t"),
        "latin1_tag": lambda: ht.div("caf\u00e9 \u00fc\u00df", title="\u00e9"),
        "bmp_list": lambda: ht.TagList(ht.p("\u4e2d\u6587 \u0416 \u2028 \u00a0"), "e\u0301"),
        "astral_document": lambda: ht.HTMLDocument(ht.div("\U0001f600 \U0010ffff", dep, ht.head_content(ht.tags.title("t\u00eftre"))), lang="fr"),
        "windows_1252_gap": lambda: ht.div("\u0081 \u0152 \u20ac"),
    }
    try:
        res["urls_of_non_ascii_file_names"] = {"sha": _d(repr(urldep.as_dict()) + str(urldep.as_html_tags())), "utf8": True, "returned_path": True}
    except Exception as e:
        res["urls_of_non_ascii_file_names"] = {"raised": type(e).__name__ + ": " + str(e)[:60]}
    try:
        f = os.path.join(d, "abs.html")
        shutil.rmtree(absdir, ignore_errors=True)
        ret = ht.HTMLDocument(ht.div("abs", filedep)).save_html(f, libdir=absdir)
        with open(f, "rb") as fh:
            data = fh.read()
        res["absolute_libdir"] = {"sha": hashlib.sha256(data).hexdigest()[:20], "utf8": _is_utf8(data), "returned_path": ret == f and os.path.isfile(os.path.join(absdir, "filedep-1.0", "f.js"))}
    except Exception as e:
        res["absolute_libdir"] = {"raised": type(e).__name__ + ": " + str(e)[:60]}
    finally:
        shutil.rmtree(absdir, ignore_errors=True)
    try:
        for k, mk in items.items():
            f = os.path.join(d, k + ".html")
            try:
                ret = mk().save_html(f)
                with open(f, "rb") as fh:
                    data = fh.read()
                res[k] = {"sha": hashlib.sha256(data).hexdigest()[:20], "utf8": _is_utf8(data), "returned_path": ret == f}
            except Exception as e:
                res[k] = {"raised": type(e).__name__ + ": " + str(e)[:60]}
    finally:
        shutil.rmtree(d, ignore_errors=True)
    json.dump(res, sys.stdout)


def _is_utf8(data):
    try:
        data.decode("utf-8")
        return True
    except UnicodeDecodeError:
        return False


# environments in which the interpreter's default text encoding differs (what open() uses when none is given)
ENVIRONMENTS = [
    ("utf-8 locale", {"LC_ALL": "C.UTF-8", "LANG": "C.UTF-8"}),
    ("C locale, no coercion (ASCII)", {"LC_ALL": "C", "LANG": "C", "PYTHONCOERCECLOCALE": "0", "PYTHONUTF8": "0"}),
    ("POSIX locale, no coercion, latin-1 stdio", {"LC_ALL": "POSIX", "LANG": "POSIX", "PYTHONCOERCECLOCALE": "0", "PYTHONUTF8": "0", "PYTHONIOENCODING": "latin-1"}),
    ("UTF-8 mode forced", {"LC_ALL": "C", "PYTHONUTF8": "1"}),
    ("C locale, coerced", {"LC_ALL": "C", "LANG": "C"}),
    ("utf-8 locale, working directory /", {"LC_ALL": "C.UTF-8", "HV_CWD": "/"}),
    ("utf-8 locale, working directory = the temporary directory", {"LC_ALL": "C.UTF-8", "HV_CWD": "TMP"}),
]


def spawn_saved(extra_env, timeout=600):
    env = {k: v for k, v in os.environ.items() if k not in ("LC_ALL", "LANG", "LC_CTYPE", "PYTHONUTF8", "PYTHONCOERCECLOCALE", "PYTHONIOENCODING")}
    env.update(extra_env, PYTHONHASHSEED="0", PYTHONDONTWRITEBYTECODE="1")
    cwd_ = VERIF
    if env.get("HV_CWD"):
        import tempfile as _tf
        cwd_ = _tf.gettempdir() if env["HV_CWD"] == "TMP" else env["HV_CWD"]
        env["PYTHONPATH"] = VERIF + (os.pathsep + env["PYTHONPATH"] if env.get("PYTHONPATH") else "")
    p = subprocess.run([sys.executable] + (["-O"] if sys.flags.optimize else []) + ["-m", "hv.checks.c18", "child", "saved"], cwd=cwd_, env=env, capture_output=True, text=True, timeout=timeout)
    if p.returncode != 0:
        raise RuntimeError("child failed (%r): %s" % (extra_env, p.stderr[-1500:]))
    return json.loads(p.stdout)


def child_main(argv):
    if argv and argv[0] == "saved":
        return saved_files_main()
    seed, n, mode = int(argv[0]), int(argv[1]), argv[2]
    from ..loader import ht
    from .. import gen

    from ..mon.canary import Canary

    items = battery(seed, n)
    res = {}
    if mode.startswith("prime:"):
        # a process whose very first use of the library is ONE small operation of a particular kind; only the canaries follow
        what = mode.split(":", 1)[1]
        {"text": lambda: str(ht.div("a<b")), "attr": lambda: str(ht.div(title="q\"'")), "escape_text": lambda: ht.html_escape("x&y"), "escape_attr": lambda: ht.html_escape("q\"", attr=True),
         "html": lambda: str(ht.div(ht.HTML("<i>"))), "dep": lambda: ht.div(ht.HTMLDependency("p", "1.0")).render(), "doc": lambda: ht.HTMLDocument(ht.div("d")).render(),
         "jsx": lambda: str(__import__("htmltools._jsx", fromlist=["x"]).jsx_tag_create("P")("c")), "nothing": lambda: None}[what]()
    elif mode == "only":
        idx = [int(x) for x in argv[3].split(",")]
        res["only"] = {str(i): run_item(*items[i]) for i in idx}
    elif mode in ("forward", "reversed", "shuffled"):
        # one order per process: every order starts from a fresh interpreter, so history-dependent state
        # (caches, counters) built by one order cannot make the next order agree with it
        rng = random.Random(1234)
        order = {"forward": list(range(n)), "reversed": list(range(n))[::-1], "shuffled": rng.sample(range(n), n)}[mode]
        res[mode] = {str(i): run_item(*items[i]) for i in order}
    else:
        inter = {}
        for i in range(n):
            # unrelated work between items: renders, documents, head_content with other payloads, a dependency resolution
            try:
                str(ht.div(ht.span("noise %d" % i), class_="n%d" % i))
                ht.HTMLDocument(ht.div(ht.head_content(ht.tags.title("noise%d" % (i % 5))), ht.HTMLDependency("noise%d" % (i % 7), "1.%d" % i))).render()
            except Exception as e:
                # unrelated work failing because of what ran before it is history dependence as well
                inter[str(i)] = {"html": "unrelated render raised " + type(e).__name__ + ": " + str(e)[:80]}
                continue
            inter[str(i)] = run_item(*items[i])
        res["interleaved"] = inter
    # a fixed set of constructions made and observed AFTER everything else in this process: whatever state the history
    # left behind shows up here; the parent compares these observations across processes with different histories
    # (building them first would prime any cache identically everywhere and hide exactly what is looked for)
    try:
        res["canary"] = {k: _d(v if isinstance(v, str) else repr(v)) for k, v in Canary().snap.items()}
    except Exception as e:
        res["canary"] = {"raised": type(e).__name__ + ": " + str(e)[:80]}
    res["hashseed"] = os.environ.get("PYTHONHASHSEED")
    res["hash_probe"] = hash("probe") & 0xFFFF
    json.dump(res, sys.stdout)


# ------------------------------------------------------------------ parent
def spawn(hashseed, seed, n, mode, extra=None, timeout=1800):
    env = dict(os.environ, PYTHONHASHSEED=str(hashseed), PYTHONDONTWRITEBYTECODE="1")
    cmd = [sys.executable] + (["-O"] if sys.flags.optimize else []) + ["-m", "hv.checks.c18", "child", str(seed), str(n), mode] + ([extra] if extra else [])
    p = subprocess.run(cmd, cwd=VERIF, env=env, capture_output=True, text=True, timeout=timeout)
    if p.returncode != 0:
        raise RuntimeError("child failed (hashseed=%s): %s" % (hashseed, p.stderr[-1500:]))
    return json.loads(p.stdout)


def run(ctx):
    from ..loader import ht
    from .. import gen
    from concurrent.futures import ThreadPoolExecutor

    n = 440 if not ctx.thorough else 4400
    hashseeds = [0, 1, 2, 3, 4, 5, 6, 7] if not ctx.thorough else list(range(0, 36)) + [4242, 99999, 2**31, 4294967295, "random", "random", "random", "random", "random", "random", "random", "random"]
    items = battery(ctx.seed, n)
    ORDERS = ("forward", "reversed", "shuffled", "interleaved")
    jobs = [(hs, od) for hs in hashseeds for od in ORDERS]
    with ThreadPoolExecutor(max_workers=14) as ex:
        raw = list(ex.map(lambda j: spawn(j[0], ctx.seed, n, j[1]), jobs))
    outs = []
    for k, hs in enumerate(hashseeds):
        merged = {}
        for r_ in raw[k * len(ORDERS):(k + 1) * len(ORDERS)]:
            merged.update(r_)
        outs.append(merged)
    canaries = [(r_.get("canary"), hs, od) for r_, (hs, od) in zip(raw, jobs)]
    ctx.notes["distinct_hash_functions_observed"] = len({o["hash_probe"] for o in raw})
    ctx.notes["processes"] = len(raw)
    ref = outs[0]["forward"]
    for i in range(n):
        kind, recipe = items[i]
        seen = {}
        for o, hs in zip(outs, hashseeds):
            for order in ("forward", "reversed", "shuffled", "interleaved"):
                v = json.dumps(o[order][str(i)], sort_keys=True)
                seen.setdefault(v, []).append((str(hs), order))
                ctx.count("monitor.digest_comparisons")
        for o, hs in zip(outs, hashseeds):
            for order in ("forward", "reversed", "shuffled", "interleaved"):
                if o[order][str(i)].get("same_when_rendered_again") is False:
                    ctx.violation("output-depends-on-history", "battery item %d (%s): the same object gives a different result when rendered again / "
                                  "after an unrelated object was changed" % (i, kind), {"item": i, "kind": kind, "recipe": recipe})
                    break
            else:
                continue
            break
        ctx.case((kind, recipe), nontrivial=kind in ("doc", "textdoc", "headc", "attrs", "classes", "css", "jsx", "typed_attrs", "jsonmode", "retry", "longtwin", "shared"))
        ctx.state("battery_kinds", kind)
        if len(seen) > 1:
            groups = list(seen.values())
            key = "output-depends-on-history" if any(len({json.dumps(o[od][str(i)], sort_keys=True) for od in ("forward", "reversed", "shuffled", "interleaved")}) > 1 for o in outs) \
                else "output-depends-on-hash-seed"
            ctx.violation(key, "battery item %d (%s) gave %d different results across processes/orders" % (i, kind, len(seen)),
                          {"item": i, "kind": kind, "recipe": recipe, "groups": [g[:4] for g in groups]})
    # the files save_html() writes, in processes whose default text encoding differs: same bytes (UTF-8, as the document says)
    import shutil as _sh
    import tempfile as _tf

    abs_parent = _tf.mkdtemp(prefix="hv-c18-abs-")     # one absolute directory for all children of THIS run (runs may overlap)
    try:
        envs = [(label, spawn_saved(dict(e, HV_C18_ABSDIR=abs_parent))) for label, e in ENVIRONMENTS]
    finally:
        _sh.rmtree(abs_parent, ignore_errors=True)
    ctx.notes["default_encodings_observed"] = sorted({r_["preferred_encoding"] for _, r_ in envs})
    ref_label, ref_env = envs[0]
    for label, r_ in envs:
        for k_, v_ in r_.items():
            if k_ == "preferred_encoding":
                continue
            ctx.count("monitor.saved_file_comparisons")
            if v_ != ref_env[k_] or "raised" in v_ or not v_.get("utf8") or not v_.get("returned_path"):
                ctx.violation("saved-file-depends-on-locale", "save_html() of %s under '%s' (default encoding %s) gives %r; under '%s' it gives %r"
                              % (k_, label, r_["preferred_encoding"], v_, ref_label, ref_env[k_]), {"item": k_, "environment": label, "encoding": r_["preferred_encoding"]})
                break
    if len(ctx.notes["default_encodings_observed"]) < 2:
        ctx.count("environment_battery_saw_one_encoding_only")
    # a sample of items alone in fresh processes
    rng = random.Random(ctx.seed)
    sample = rng.sample(range(n), 6 if not ctx.thorough else 40)
    # items whose outcome could hinge on value-equal-but-differently-typed inputs get a history-free run as well
    typed = [i for i in range(n) if items[i][0] in ("typed_attrs", "attrs", "shared")]
    sample += rng.sample(typed, min(len(typed), 10 if not ctx.thorough else 60))
    sample = sorted(set(sample))
    with ThreadPoolExecutor(max_workers=14) as ex:
        solo = list(ex.map(lambda i: (i, spawn(rng.choice([0, 7, 11]), ctx.seed, n, "only", str(i))["only"][str(i)]), sample))
    canaries += [(spawn(0, ctx.seed, 1, "only", "0").get("canary"), 0, "nearly-empty history")]
    # processes whose first contact with the library is one operation of a particular kind (what is computed lazily on first use
    # must not depend on what that first use was)
    for what in ("text", "attr", "escape_text", "escape_attr", "html", "dep", "doc", "jsx", "nothing"):
        canaries.insert(0, (spawn(0, ctx.seed, 1, "prime:" + what).get("canary"), 0, "first use: " + what))
    ref_c = canaries[-1][0]
    for c_, hs, od in canaries:
        ctx.count("monitor.canary_checks")
        if c_ != ref_c:
            keys = sorted(k for k in set(c_ or {}) | set(ref_c or {}) if (c_ or {}).get(k) != (ref_c or {}).get(k))
            ctx.violation("output-depends-on-history", "fixed constructions observed after the battery differ from the same constructions in a fresh process: %s" % keys[:6],
                          {"hashseed": str(hs), "order": od, "differing": keys})
            break
    for i, v in solo:
        ctx.count("monitor.solo_runs")
        if v != ref[str(i)]:
            ctx.violation("output-depends-on-history", "battery item %d alone in a fresh process differs from its result inside the battery" % i,
                          {"item": i, "kind": items[i][0], "recipe": items[i][1]})
    # head_content: names are a function of the rendered content only (bijection over a corpus)
    crng = random.Random("corpus/%d" % ctx.seed)
    by_name, by_html = {}, {}
    corpus = 0
    for _ in range(300 if not ctx.thorough else 3000):
        p = [gen.TAG(crng.choice(["title", "meta", "link", "style"]), {"k": "text", "s": crng.choice(["a", "b", "a ", "A", "é", "e\u0301", "Å", "A\u030a", "ﬁ", "fi", "<x>", "",
                                                                                                     # (contents that differ only in a line separator are different contents)
                                                                                                     "a\nb", "a\r\nb", "a\rb", "a b", "a\u2028b", "a\x0cb", "a\x85b", "a\n", "\na", "a\r\n"])},
                     attrs=[["name", {"t": "str", "s": crng.choice(["n", "m", "n "])}]][: crng.randint(0, 1)], ws=crng.random() < 0.5)
             for _ in range(crng.randint(0, 2))]
        if crng.random() < 0.3:
            p.append({"k": "html", "s": crng.choice(["<x>", "<y>", "<x> ", "<x>\n", "<x>\r\n", "<x>\r", "<x>\n\n"])})
        if crng.random() < 0.25:
            # a dependency inside the payload is invisible in the rendered content, so it must not influence the name
            p.insert(crng.randint(0, len(p)), {"k": "dep", "name": crng.choice(["nd1", "nd2"]), "version": "1.0", "script": [{"src": "n.js"}]})
        live = [gen.build(c) for c in p]
        hc = ht.head_content(*live)
        html = ht.TagList(*[gen.build(c) for c in p]).get_html_string()
        import htmltools as _h
        old_mode = _h.html_dependency_render_mode
        _h.html_dependency_render_mode = "json"
        try:
            hc_json = ht.head_content(*[gen.build(c) for c in p])
        finally:
            _h.html_dependency_render_mode = old_mode
        if hc_json.name != hc.name:
            ctx.violation("head-content-name-not-content-function", "the name of the same head content depends on the global dependency render mode", {"payload": p})
        corpus += 1
        ctx.count("monitor.headcontent_pairs")
        if by_name.setdefault(hc.name, html) != html:
            ctx.violation("head-content-name-collision", "different head content got the same name %s" % hc.name, {"payload": p})
        if by_html.setdefault(html, hc.name) != hc.name:
            ctx.violation("head-content-name-not-content-function", "equal head content got different names", {"payload": p})
        if not hc.name.startswith("headcontent_"):
            ctx.violation("head-content-name-form", "unexpected name %r" % hc.name, {"payload": p})
    # payloads that are one plain string or one HTML() node: still named by what they render to
    for plain, trusted in (("a<b", "a&lt;b"), ("x&y", "x&amp;y"), ("<x>", "&lt;x&gt;"), ("p>q", "p&gt;q")):
        a_, b_ = ht.head_content(plain), ht.head_content(ht.HTML(trusted))
        c_, d_ = ht.head_content(plain), ht.head_content(ht.HTML(plain))
        ctx.count("monitor.headcontent_pairs")
        if a_.name != b_.name:
            ctx.violation("head-content-name-not-content-function", "head_content(%r) and head_content(HTML(%r)) render the same but are named differently" % (plain, trusted), {"plain": plain})
        if c_.name == d_.name:
            ctx.violation("head-content-name-collision", "head_content(%r) and head_content(HTML(%r)) render differently but share a name" % (plain, plain), {"plain": plain})
    # payloads that differ only in a lone surrogate (text read with errors="surrogateescape"): refused, or named apart - never merged
    for a_s, b_s in (("\udc80", "\udc81"), ("\udc80", "?"), ("\ud800", "\ufffd"), ("\udfff", "\udc00")):
        names_ = []
        for ch in (a_s, b_s):
            try:
                names_.append(ht.head_content(ht.HTML("<style>.a::before{content:'%s'}</style>" % ch)).name)
            except Exception:
                names_.append(None)    # (refusing such a payload - with whatever error - is fine)
        ctx.count("monitor.headcontent_pairs")
        if names_[0] is not None and names_[0] == names_[1]:
            ctx.violation("head-content-name-collision", "head contents that differ in one character (%r / %r) share the name %s" % (a_s, b_s, names_[0]), {"chars": [ascii(a_s), ascii(b_s)]})
    ctx.notes["headcontent_corpus"] = corpus
    ctx.notes["headcontent_distinct_contents"] = len(by_html)
    # equal content included once per document, different content never merged
    for _ in range(40 if not ctx.thorough else 400):
        k = crng.randint(1, 4)
        titles = ["HC%d" % j for j in range(k)]
        seq = [crng.choice(titles) for _ in range(crng.randint(k, 9))]
        out = ht.HTMLDocument(ht.div(*[ht.head_content(ht.tags.title(t)) for t in seq])).render()["html"]
        ctx.count("monitor.headcontent_documents")
        for t in set(seq):
            if out.count("<title>%s</title>" % t) != 1:
                ctx.violation("head-content-not-once", "head content %r occurs %d times" % (t, out.count("<title>%s</title>" % t)), {"sequence": seq})
    ctx.require("monitor.digest_comparisons", 1000)
    ctx.require("monitor.solo_runs", 3)
    ctx.require("monitor.headcontent_pairs", 100)
    ctx.sample({"battery_item_0": items[0], "digest": ref["0"], "hash_seeds": [str(h) for h in hashseeds]})


if __name__ == "__main__":
    if len(sys.argv) > 1 and sys.argv[1] == "child":
        child_main(sys.argv[2:])
