"""C13 - serialised dependencies round-trip through HTML text."""

from __future__ import annotations

import copy
import json
import re

from ..loader import ht
from ..ref import tokenizer
from .. import gen

ID = "C13"
LEVEL = "exploration"
RULE = ("dependencies whose string fields are hostile (quotes, backslashes, CR/LF, non-ASCII, astral, '</script>' in every letter "
        "case and with trailing space or '/', '<!--', ']]>', the serialisation prefix itself), any indent, 1-5 serialised copies with "
        "duplicates interleaved with uniquely-marked surrounding text; placeholder occurring 0/1/3 times; JSON render mode pipeline "
        "vs direct rendering. non-trivial = at least one field contains a quote, backslash, line break or '</script' variant; "
        "distinct by digest")
ASSUMPTIONS = ["dependency equality is field-wise (name, version, source, script, stylesheet, meta, all_files) with head compared as rendered markup",
               "surrounding text never contains the serialisation prefix itself"]
SHARDS = {"quick": 1, "thorough": 16}

PREFIX = '<script type="application/json" data-html-dependency="">'
ENDTAGS = ["</script>", "</SCRIPT>", "</ScRipT>", "</script >", "</SCRIPT\n>", "</script/>", "</scripT\t>", "</script", "</Script>x"]
HOSTILE = ['"', "'", "\\", "\\\\", "\\n", "\n", "\r\n", "\t", "é", "中", "\U0001f600", "<!--", "-->", "]]>", "&amp;", "&", "<", ">",
           PREFIX, "{", "}", "\"}", "\\u0041", " ", "\x00", "%", " ", "a.js", "x/y", "null", "<\\/script>",
           # "</" followed by something that cannot start an end tag, other end tags, a lone "<"
           "</ b", "x</", "</>", "1</2", "<//script>", "</1", "</title>", "</b>", "</", "< /script>", "<\\",
           # percent escapes, singly and doubly encoded (a file name is text: nothing decodes it)
           "%20", "%2520", "%252F", "%25", "%2", "%zz", "+"] + ENDTAGS
PLACEHOLDER = "<!--DEPS-PLACEHOLDER-->"
# JSON islands of other tools in the surrounding text: they are not serialised dependencies (the serialised form is the one
# documented frame) and stay where they are
OTHER_ISLANDS = ['<script type="application/json" data-html-dependency="false">{"widget": [1, 2, 3]}</script>',
                 '<script type="application/json" data-for="w1">{"x": 1}</script>',
                 '<script type="application/json" data-html-dependency-id="w2">{"name": "n", "version": "1"}</script>',
                 '<script type="application/json" data-html-dependency="no">{"y": 2}</script>']


def hs(rng, n=3):
    return "".join(rng.choice(HOSTILE + ["w", "q1"]) for _ in range(rng.randint(0, n)))


def rand_dep_recipe(rng, i, benign_head=False):
    r = {"k": "dep", "name": "dep%d%s" % (i, hs(rng, 2) if not benign_head else ""), "version": rng.choice(["1.0", "2.3.4", "0.0.1", "10", "1.0", "2.3.4",
                                                                                                                             # valid but not in canonical spelling
                                                                                                                             "1.0-beta", "v2.1", "1.0.0-1", "1.02", " 1.0 ", "1.0RC1", "1.0.post3", "2.0.dev1"])}
    if rng.random() < 0.1:
        r["version_object"] = True
    s = rng.random()
    if s < 0.08:
        r["source"] = {"package": None, "subdir": "lib/" + hs(rng)}   # the documented way of naming a plain directory
    elif s < 0.3:
        r["source"] = {"subdir": "lib/" + hs(rng)}  # a NUL is not a valid path character (os.path.realpath rejects it)
    elif s < 0.5:
        r["source"] = {"package": "htmltools", "subdir": hs(rng)}  # the package must be importable: URLs are computed from it
    elif s < 0.75:
        r["source"] = {"href": "https://e.org/" + hs(rng)}
    if "source" in r and "subdir" in r["source"]:
        r["source"]["subdir"] = r["source"]["subdir"].replace("\x00", "")
    if rng.random() < 0.7:
        r["script"] = [dict({"src": "s%d" % k + hs(rng)}, **({"type": hs(rng)} if rng.random() < 0.3 else {})) for k in range(rng.randint(1, 3))]
        if rng.random() < 0.3:
            # optional attributes in the order the author wrote them (before and after the file name)
            extra = rng.sample([("defer", ""), ("async", ""), ("integrity", "sha-x"), ("crossorigin", "anonymous"), ("type", "module"), ("zlast", "z"), ("Accept", "a")], rng.randint(1, 3))
            item = r["script"][-1]
            r["script"][-1] = dict(extra[:1] + list(item.items()) + extra[1:]) if rng.random() < 0.5 else dict(list(item.items()) + extra)
        if rng.random() < 0.3:
            r["script"] = r["script"][0]
    if rng.random() < 0.5:
        r["stylesheet"] = [{"href": "c%d" % k + hs(rng), "media": hs(rng, 1)} for k in range(rng.randint(1, 2))]
    if rng.random() < 0.4:
        r["meta"] = [{"name": "m" + hs(rng, 1), "content": hs(rng)}]
    if rng.random() < 0.3:
        r["all_files"] = True
    h = rng.random()
    if benign_head:
        if h < 0.5:
            r["head"] = [gen.TAG("title", {"k": "text", "s": "T%d" % i}), gen.TAG("meta", ws=True, attrs=[["name", {"t": "str", "s": "n%d" % i}]])]
    elif h < 0.3:
        r["head"] = [gen.TAG("title", {"k": "text", "s": "T" + hs(rng)}), {"k": "html", "s": "<link rel=\"x\">" + hs(rng)},
                     gen.TAG("script", {"k": "text", "s": "var a = 1 && 2;" + hs(rng, 2)})]
    elif h < 0.5:
        r["head"] = "<meta name=\"raw\">" + hs(rng)
    elif h < 0.56:
        r["head"] = [gen.TAG("title", {"k": "text", "s": "T"}), {"k": "dep", "name": "nested-in-head", "version": "1.0", "script": [{"src": "n.js"}]}]
    elif h < 0.7:
        # head given as ONE object (markup read from a file and wrapped in HTML(), a tag, a list) with white space at its ends
        ws_ = rng.choice(["\n", " ", "\n\n", "\t", "\r\n", ""])
        r["head"] = rng.choice([{"as": "html", "s": ws_ + "<style>a{}</style>" + hs(rng, 1) + ws_},
                                {"as": "taglist", "c": [{"k": "text", "s": ws_}, gen.TAG("title", {"k": "text", "s": "T"}), {"k": "text", "s": ws_}]},
                                {"as": "tag", "node": gen.TAG("style", {"k": "text", "s": ws_ + "b{}" + ws_}, ws=False)}])
    return r


def serialise(dep, indent):
    a = dep.serialize_to_script_json(indent=indent).get_html_string()
    import htmltools as _h

    old = _h.html_dependency_render_mode
    _h.html_dependency_render_mode = "json"
    try:
        b = dep.serialize_to_script_json(indent=indent).get_html_string()
    finally:
        _h.html_dependency_render_mode = old
    if a != b:
        raise ModeDependent(a, b)
    return a


class ModeDependent(Exception):
    pass


def head_markup(dep):
    return None if dep.head is None else ht.TagList(dep.head).get_html_string()


def _ordered(items):
    """Item dicts with their keys IN ORDER (the order of an item's attributes is the order of the attributes of the tag written for it)."""
    return [list(d.items()) if isinstance(d, dict) else d for d in items] if isinstance(items, (list, tuple)) else items


def fields(dep):
    return {"name": dep.name, "version": str(dep.version), "source": list(dep.source.items()) if isinstance(dep.source, dict) else dep.source,
            "script": _ordered(dep.script), "stylesheet": _ordered(dep.stylesheet),
            "meta": _ordered(dep.meta), "all_files": dep.all_files, "head": head_markup(dep)}


def hot(recipe):
    s = json.dumps(recipe)
    return any(x in s for x in ('\\"', "\\\\", "\\n", "\\r")) or "</script" in s.lower()


def check_serialised_after_change(ctx, recipe, indent, rng):
    """A dependency that was serialised once, then changed, then serialised again: what is recovered is the dependency as it is
    now (and what a dependency built that way from the start serialises to)."""
    wit = {"dep": recipe, "indent": indent, "scenario": "serialised, changed, serialised again"}
    d, twin = gen.build(recipe), gen.build(recipe)
    try:
        serialise(d, indent)
        if rng.random() < 0.5:
            str(ht.div("x", d))
    except ModeDependent:
        return True   # (reported by the round-trip oracle)

    def change(x):
        x.script.append({"src": "added-later.js"})
        x.all_files = not x.all_files
        x.meta.append({"name": "later", "content": "c</script>"})
        x.name = x.name + "-renamed"

    change(d)
    change(twin)
    try:
        s2, st = serialise(d, indent), serialise(twin, indent)
        got = ht.HTMLTextDocument("<p>a</p>" + s2 + "<p>b</p>", deps_replace_pattern=PLACEHOLDER).render()["dependencies"]
    except ModeDependent:
        return True
    except Exception as e:
        ctx.violation("extraction-raises", "HTMLTextDocument raised %r" % e, wit)
        return False
    ctx.count("oracle.serialised_after_change")
    if s2 != st:
        ctx.violation("serialisation-stale-after-change", "a dependency changed after it was serialised once serialises differently from one built that way from the start", dict(wit, got=s2[:500], want=st[:500]))
        return False
    if len(got) != 1 or fields(got[0]) != fields(d):
        ctx.violation("roundtrip-field-differs:after-change", "the dependency recovered from the second serialisation is not the dependency as it is now", dict(wit, got=[fields(g) for g in got][:2], want=fields(d)))
        return False
    return True


# ------------------------------------------------------------------ 1. round trip
def check_roundtrip(ctx, recipes, order, indent, pieces):
    """order: indexes into recipes (duplicates allowed); pieces: len(order)+1 surrounding texts."""
    wit = {"deps": recipes, "order": order, "indent": indent, "pieces": pieces}
    # `indent` may be one value or one value per dependency (the same dependency serialised with different
    # indents gives different serialisations, each of which must be recovered)
    indents = indent if isinstance(indent, list) else [indent] * len(recipes)
    deps = [gen.build(r) for r in recipes]
    sers = []
    for d, ind in zip(deps, indents):
        try:
            s = serialise(d, ind)
        except ModeDependent:
            ctx.violation("serialisation-depends-on-render-mode", "serialize_to_script_json() gives different text under html_dependency_render_mode='json'", wit)
            return False
        sers.append(s)
        ctx.count("oracle.endtag_scan")
        if not (s.startswith(PREFIX) and s.endswith("</script>")):
            ctx.violation("serialised-form", "serialised element does not have the documented frame", dict(wit, serialised=s[:300]))
            return False
        inner = s[len(PREFIX):-len("</script>")]
        m = re.search("(?i)</script", inner)
        if m:
            ctx.violation("script-endtag-not-neutralised", "'%s' occurs inside the serialised element before its closing tag" % inner[m.start():m.start() + 12],
                          dict(wit, serialised=s[:400]))
            return False
    text = pieces[0]
    for k, i in enumerate(order):
        text += sers[i] + pieces[k + 1]
    ctx.count("oracle.roundtrip")
    if any(PLACEHOLDER in p for p in pieces):
        # differential: the placeholder sits among serialised scripts; the result must be what the same text without the
        # scripts gives when the recovered dependencies are supplied directly
        try:
            # (the recovered dependencies carry their head as one HTML() string, so they - not the originals - are supplied)
            uniq = ht.HTMLTextDocument(text, deps_replace_pattern="@@no-such-placeholder@@").render()["dependencies"]
            a = ht.HTMLTextDocument(text, deps_replace_pattern=PLACEHOLDER).render()["html"]
            b = ht.HTMLTextDocument("".join(pieces), deps=uniq, deps_replace_pattern=PLACEHOLDER).render()["html"]
        except Exception as e:
            ctx.violation("extraction-raises", "HTMLTextDocument raised %r" % e, wit)
            return False
        ctx.count("oracle.placeholder_among_scripts")
        if uniq and all(re.fullmatch(r"\w+", d_.name) for d_ in uniq):
            # the listing names exactly the recovered dependencies, one entry each, in order (nothing is merged by name)
            ms = re.findall(r'<script type="application/html-dependencies">(.*?)</script>', a, re.S)
            ctx.count("oracle.text_document_listing")
            want_l = ";".join("%s[%s]" % (d_.name, d_.version) for d_ in uniq)
            if not ms or ms[0] != want_l:
                ctx.violation("text-document-listing-differs", "the listing inserted at the placeholder is %r, the recovered dependencies are %r" % (ms[:1], want_l), wit)
                return False
        if a != b:
            ctx.violation("placeholder-misplaced", "placeholder among serialised scripts: result differs from supplying the dependencies directly",
                          dict(wit, got=a[:700], want=b[:700]))
            return False
        return True
    explicit = []
    if len(order) % 3 == 0 and not any(PLACEHOLDER in p for p in pieces):
        # dependencies given explicitly come first and are kept as they are - also when an equal one is embedded in the text
        explicit = [gen.build(recipes[order[0]])]
    try:
        doc = ht.HTMLTextDocument(text, deps=list(explicit), deps_replace_pattern=PLACEHOLDER) if explicit else ht.HTMLTextDocument(text, deps_replace_pattern=PLACEHOLDER)
        out = doc.render()
    except Exception as e:
        ctx.violation("extraction-raises", "HTMLTextDocument raised %r" % e, wit)
        return False
    if explicit:
        ctx.count("oracle.explicit_plus_embedded")
        if not out["dependencies"] or fields(out["dependencies"][0]) != fields(explicit[0]):
            ctx.violation("extracted-count", "the explicitly given dependency is not first in the result", wit)
            return False
        out = dict(out, dependencies=out["dependencies"][1:])
    # the returned dependencies are the caller's: changing them does not change what the document renders next
    for d_ in out["dependencies"]:
        d_.name = d_.name + "-changed-by-caller"
        d_.script.append({"src": "caller.js"})
    out2 = doc.render()
    if out2["html"] != out["html"] or [fields(x) for x in out2["dependencies"][len(explicit):]] == [fields(x) for x in out["dependencies"]] and out["dependencies"]:
        ctx.violation("returned-dependencies-aliased", "changing the dependencies returned by render() changed the document's next rendering", wit)
        return False
    out = dict(out2, dependencies=out2["dependencies"][len(explicit):])
    want_text = "".join(pieces)
    if out["html"] != want_text:
        ctx.violation("surrounding-text-damaged", "text after extraction differs from the surrounding pieces", dict(wit, got=out["html"][:600], want=want_text[:600]))
        return False
    # one per distinct serialisation, in order of first appearance
    seen, want = [], []
    for i in order:
        if sers[i] not in seen:
            seen.append(sers[i])
            want.append(deps[i])
    got = out["dependencies"]
    if len(got) != len(want):
        ctx.violation("extracted-count", "extracted %d dependencies, expected %d" % (len(got), len(want)), wit)
        return False
    for g, w in zip(got, want):
        fg, fw = fields(g), fields(w)
        if fg != fw:
            bad = [k for k in fg if fg[k] != fw[k]]
            ctx.violation("roundtrip-field-differs:" + ",".join(bad), "recovered dependency differs in %s" % bad, dict(wit, got=fg, want=fw))
            return False
        if not (g == w) and fg["head"] is None:
            ctx.violation("roundtrip-not-equal", "recovered dependency is != the original", wit)
            return False
    return True


# ------------------------------------------------------------------ 2. render(): placeholder handling and head markup
def head_tokens(markup):
    toks = tokenizer.tokenize(markup)
    out = []
    for t in toks:
        if t[0] == "open":
            out.append(("open", t[1], tuple(t[2]), t[3]))
        elif t[0] == "close":
            out.append(("close", t[1]))
        elif t[1].strip():
            out.append((t[0], t[1].strip()))
    return out


def check_render(ctx, recipes, n_place, lib_prefix, include_version, rng):
    # the placeholder is whatever string the caller chose - white space at its ends included (a whole template line)
    global PLACEHOLDER
    saved_ph = PLACEHOLDER
    PLACEHOLDER = rng.choice([saved_ph, saved_ph, "  DEPS-LINE\n", "\t{{deps}} ", " @@ ", "DEPS"])
    try:
        return _check_render(ctx, recipes, n_place, lib_prefix, include_version, rng)
    finally:
        PLACEHOLDER = saved_ph


def _check_render(ctx, recipes, n_place, lib_prefix, include_version, rng):
    wit = {"deps": recipes, "placeholders": n_place, "lib_prefix": lib_prefix, "include_version": include_version, "placeholder": PLACEHOLDER}
    deps = [gen.build(r) for r in recipes]
    parts = ["<html><head>"] + ["<i>between%d</i>" % k for k in range(max(n_place - 1, 0))] + ["</head><body>B</body></html>"]
    template = PLACEHOLDER.join(parts) if n_place else "".join(parts)
    ctx.count("oracle.render_placeholder")
    doc = ht.HTMLTextDocument(template, deps=list(deps), deps_replace_pattern=PLACEHOLDER)
    out = doc.render(lib_prefix=lib_prefix, include_version=include_version)
    if n_place == 0:
        if out["html"] != template:
            ctx.violation("render-changes-text-without-placeholder", "render() changed a text without placeholder", wit)
            return False
        return True
    first = template.index(PLACEHOLDER)
    pre, post = template[:first], template[first + len(PLACEHOLDER):]
    if not (out["html"].startswith(pre) and out["html"].endswith(post)) or len(out["html"]) < len(pre) + len(post):
        ctx.violation("render-replaces-more-than-first-placeholder", "text outside the first placeholder changed", dict(wit, got=out["html"][:800]))
        return False
    inserted = out["html"][len(pre):len(out["html"]) - len(post)]
    # what HTMLDocument puts in <head> after the charset meta
    d = ht.HTMLDocument(ht.TagList(*[gen.build(r) for r in recipes])).render(lib_prefix=lib_prefix, include_version=include_version)["html"]
    m = re.search(r"<head>(.*)</head>", d, re.S)
    head = m.group(1)
    marker = '<meta charset="utf-8"/>'
    head = head[head.index(marker) + len(marker):]
    if not deps and inserted != "":
        ctx.violation("placeholder-not-replaced", "with no dependencies the placeholder must be replaced by nothing, found %r" % inserted[:80], wit)
        return False
    try:
        b = head_tokens(head)
    except tokenizer.Forged:
        ctx.count("untokenizable_heads")
        return True
    try:
        a = head_tokens(inserted)
    except tokenizer.Forged as f:
        ctx.violation("inserted-head-markup-differs", "markup inserted at the placeholder is not what HTMLDocument puts in <head>: %s" % f, dict(wit, inserted=inserted[:800]))
        return False
    if a != b:
        ctx.violation("inserted-head-markup-differs", "markup inserted at the placeholder differs from HTMLDocument's head markup", dict(wit, inserted=inserted[:800], head=head[:800]))
        return False
    if [fields(x) for x in out["dependencies"]] != [fields(x) for x in deps]:
        ctx.violation("render-deps-differ", "render()['dependencies'] differ from the given dependencies", wit)
        return False
    # the same document rendered again with other parameters gives what a fresh document gives with them
    for lp2, iv2 in ((lib_prefix, not include_version), ("other/prefix", include_version), (lib_prefix, include_version)):
        again = doc.render(lib_prefix=lp2, include_version=iv2)["html"]
        fresh = ht.HTMLTextDocument(template, deps=[gen.build(r) for r in recipes], deps_replace_pattern=PLACEHOLDER).render(lib_prefix=lp2, include_version=iv2)["html"]
        ctx.count("oracle.rerender_other_parameters")
        if again != fresh:
            ctx.violation("render-remembers-earlier-parameters", "a second render(lib_prefix=%r, include_version=%r) of the same document differs from a fresh document's" % (lp2, iv2),
                          dict(wit, again=again[:600], fresh=fresh[:600]))
            return False
    return True


# ------------------------------------------------------------------ 3. JSON mode pipeline == direct rendering
def check_json_mode(ctx, tree_recipe):
    wit = {"tree": tree_recipe}
    tag = gen.build(tree_recipe)
    direct = tag.render()
    import htmltools

    old = htmltools.html_dependency_render_mode
    htmltools.html_dependency_render_mode = "json"
    try:
        if ctx.rng.random() < 0.4:
            # an earlier JSON-mode conversion that failed half-way leaves nothing behind
            for bad in (ht.div("x", ht.HTMLDependency("lost", "1.0"), _Unexpanded()), ht.TagList(ht.span(_RaisingRepr()))):
                try:
                    str(bad)
                except Exception:
                    pass
            ctx.count("json_mode_after_failed_conversion")
        s = str(tag)
    finally:
        htmltools.html_dependency_render_mode = old
    ctx.count("oracle.json_mode")
    template = "<html><head>" + PLACEHOLDER + "</head><body>" + s + "</body></html>"
    out = ht.HTMLTextDocument(template, deps_replace_pattern=PLACEHOLDER).render()
    m = re.search(r"<body>(.*)</body>", out["html"], re.S)
    body = m.group(1)
    if body.rstrip("\n") != direct["html"].rstrip("\n"):
        ctx.violation("json-mode-body-differs", "body text after JSON-mode round trip differs from direct rendering", dict(wit, got=body[:800], want=direct["html"][:800]))
        return False
    if [fields(x) for x in out["dependencies"]] != [fields(x) for x in direct["dependencies"]]:
        ctx.violation("json-mode-deps-differ", "dependencies after JSON-mode round trip differ from direct rendering",
                      dict(wit, got=[x.name for x in out["dependencies"]], want=[x.name for x in direct["dependencies"]]))
        return False
    hm = re.search(r"<head>(.*)</head>", out["html"], re.S).group(1)
    dd = ht.HTMLDocument(gen.build(tree_recipe)).render()["html"]
    dh = re.search(r"<head>(.*)</head>", dd, re.S).group(1)
    marker = '<meta charset="utf-8"/>'
    dh = dh[dh.index(marker) + len(marker):]
    try:
        if head_tokens(hm) != head_tokens(dh):
            ctx.violation("json-mode-head-differs", "head markup after JSON-mode round trip differs from HTMLDocument's", dict(wit, got=hm[:800], want=dh[:800]))
            return False
    except tokenizer.Forged:
        ctx.count("untokenizable_heads")
    return True


def check_json_mode_jsx(ctx, rng, k):
    """A JSX component written in JSON mode - on its own (str / _repr_html_), in a list, in a tag - and post-processed gives the
    dependencies and the body the direct rendering gives."""
    import htmltools
    from ..loader import jsx_mod

    dep = ht.HTMLDependency("chartlib%d" % (k % 3), "4.%d" % (k % 4), source={"href": "https://cdn.example/chartlib"}, script={"src": "chart.js"}, head="<!-- chartlib -->")
    mk = lambda: jsx_mod.jsx_tag_create("Chart")(dep, ht.div("caption %d" % k), kind="bar")   # noqa: E731
    direct = ht.TagList(mk()).render()
    how = rng.choice(["str", "repr_html", "in_list", "in_tag", "repr"])
    old = htmltools.html_dependency_render_mode
    htmltools.html_dependency_render_mode = "json"
    try:
        w = mk()
        piece = str(w) if how == "str" else w._repr_html_() if how == "repr_html" else repr(w) if how == "repr" else str(ht.TagList(w)) if how == "in_list" else str(ht.div(w))
    finally:
        htmltools.html_dependency_render_mode = old
    if how == "in_tag":
        direct = ht.div(mk()).render()
    ctx.count("oracle.json_mode_jsx")
    out = ht.HTMLTextDocument("<html><head>" + PLACEHOLDER + "</head><body>" + piece + "</body></html>", deps_replace_pattern=PLACEHOLDER).render()
    wit = {"how": how, "piece": piece[:600]}
    if [fields(x) for x in out["dependencies"]] != [fields(x) for x in direct["dependencies"]]:
        ctx.violation("json-mode-deps-differ", "dependencies of a JSX component (%s) after the JSON-mode round trip differ from direct rendering" % how,
                      dict(wit, got=[x.name for x in out["dependencies"]], want=[x.name for x in direct["dependencies"]]))
        return False
    body = re.search(r"<body>(.*)</body>", out["html"], re.S).group(1)
    if body.rstrip("\n") != direct["html"].rstrip("\n") or "data-html-dependency" in out["html"]:
        ctx.violation("json-mode-body-differs", "body text of a JSX component (%s) after the JSON-mode round trip differs from direct rendering" % how, dict(wit, got=body[:800], want=direct["html"][:800]))
        return False
    return True


def check_failed_then_retry(ctx, recipes, rng):
    """A text whose LAST embedded dependency is unusable is refused; the caller's deps= list is as it was, and the repaired text
    with the same list gives what a first attempt with the repaired text gives."""
    wit = {"deps": recipes, "scenario": "refused, repaired, retried"}
    deps = [gen.build(r) for r in recipes]
    sers = [serialise(d, None) for d in deps]
    explicit = ht.HTMLDependency("explicit", "1.0", script={"src": "e.js"})
    mine = [explicit]
    bad = rng.choice(['{"name": "b", "version": "1.0", "source": 5}', '{"name": "b", "version": "1.0", "script": [{"nosrc": 1}]}', '{"name": "b"', '{"version": "1.0"}', 'null'])
    good_text = "<p>" + "</p><p>".join(sers) + "</p>"
    bad_text = good_text + PREFIX + bad + "</script>"
    ctx.count("oracle.failed_then_retry")
    try:
        ht.HTMLTextDocument(bad_text, deps=mine, deps_replace_pattern=PLACEHOLDER)
        return True   # (the library may learn to accept some of these; nothing to compare then)
    except Exception:
        pass
    if len(mine) != 1 or mine[0] is not explicit:
        ctx.violation("caller-list-changed-by-refused-call", "a refused HTMLTextDocument() left %d entries in the caller's deps= list (it held 1)" % len(mine), wit)
        return False
    out = ht.HTMLTextDocument(good_text + PLACEHOLDER, deps=mine, deps_replace_pattern=PLACEHOLDER).render()
    fresh = ht.HTMLTextDocument(good_text + PLACEHOLDER, deps=[ht.HTMLDependency("explicit", "1.0", script={"src": "e.js"})], deps_replace_pattern=PLACEHOLDER).render()
    if out["html"] != fresh["html"] or [fields(x) for x in out["dependencies"]] != [fields(x) for x in fresh["dependencies"]]:
        ctx.violation("extracted-count", "after a refused attempt the repaired text gives %d dependencies, a first attempt gives %d"
                      % (len(out["dependencies"]), len(fresh["dependencies"])), wit)
        return False
    return True


class _Unexpanded:
    def tagify(self):
        return self


class _RaisingRepr:
    def _repr_html_(self):
        raise ValueError("cannot show")


def replay(ctx, w):
    if "order" in w:
        check_roundtrip(ctx, w["deps"], w["order"], w["indent"], w["pieces"])
    elif "placeholders" in w:
        check_render(ctx, w["deps"], w["placeholders"], w["lib_prefix"], w["include_version"], ctx.rng)
    else:
        check_json_mode(ctx, w["tree"])


def run(ctx):
    rng = ctx.rng
    ctx.require("oracle.roundtrip", 300)
    ctx.require("oracle.endtag_scan", 300)
    ctx.require("oracle.render_placeholder", 100)
    ctx.require("oracle.json_mode", 100)
    # deterministic: each end-tag variant in each field position
    i = 0
    for et in ENDTAGS:
        for fieldpos in ("name", "script", "meta", "head_str", "head_tag", "source"):
            i += 1
            if not ctx.mine(i):
                continue
            r = {"k": "dep", "name": "n", "version": "1.0"}
            if fieldpos == "name":
                r["name"] = "n" + et
            elif fieldpos == "script":
                r["script"] = [{"src": "a" + et + ".js"}]
            elif fieldpos == "meta":
                r["meta"] = [{"name": "m", "content": et}]
            elif fieldpos == "head_str":
                r["head"] = "<script>x" + et
            elif fieldpos == "head_tag":
                r["head"] = [gen.TAG("script", {"k": "text", "s": "1 && 1"}), {"k": "html", "s": et}]
            else:
                r["source"] = {"href": "https://e/" + et}
            ctx.guard(check_roundtrip, ctx, [r], [0], rng.choice([None, 0, 2]), ["<p>p0;</p>", "<p>p1;</p>"], witness={"deps": [r], "order": [0]})
            ctx.case((r, et, fieldpos), nontrivial=True)
            ctx.state("endtag_x_field", (et, fieldpos))
    # characters whose case-folded / normalised form has another length, somewhere before an end-tag-like string
    for j, ch in enumerate(["ß", "ﬁ", "İ", "ǰ", "ŉ", "\u1e9e", "\U0001f600", "é", "\u0130\u0130"]):
        for et in ENDTAGS[:5]:
            i += 1
            if not ctx.mine(i):
                continue
            r = {"k": "dep", "name": "n" + ch * (1 + j % 3), "version": "1.0", "script": [{"src": ch + "a.js"}], "meta": [{"name": "m", "content": ch + "x" + et + ch}],
                 "head": "<title>" + ch + "</title>" + et}
            ctx.guard(check_roundtrip, ctx, [r], [0, 0], rng.choice([None, 2]), ["<p>" + ch + "</p>", "<p>p1;</p>", "<i>" + ch + "</i>"], witness={"deps": [r], "order": [0, 0]})
            ctx.case((r, et, ch), nontrivial=True)
    ctx.sample({"dep": {"name": "n</SCRIPT>", "version": "1.0"}, "serialised": serialise(ht.HTMLDependency("n</SCRIPT>", "1.0"), None)})
    for _ in range(ctx.budget(1500, 1000000)):
        n = rng.randint(1, 4)
        recipes = [rand_dep_recipe(rng, k) for k in range(n)]
        order = [rng.randrange(n) for _ in range(rng.randint(1, 5))]
        pieces = ["<p>piece%d;%s</p>%s" % (k, rng.choice(["", "\n", "<script>var x = 1;</script>", " text & more ", "<!-- c -->", "<pre>\n\n\n\nkept</pre>", "\t \n"] + OTHER_ISLANDS),
                                         rng.choice(["", "", "\n", "\n\n", "\n\n\n", "\r\n\r\n\r\n", "  "])) for k in range(len(order) + 1)]
        if rng.random() < 0.3:
            pieces[rng.randrange(len(pieces))] = ""
        indent = rng.choice([None, None, 0, 1, 2, 4, 8])
        if rng.random() < 0.25:
            k_ = rng.randrange(len(pieces))
            pieces[k_] = pieces[k_] + PLACEHOLDER + ("<b>after</b>" if rng.random() < 0.5 else "")
            if rng.random() < 0.3:
                pieces[rng.randrange(len(pieces))] += PLACEHOLDER  # later occurrences stay as they are
        r = rng.random()
        if r < 0.2:
            # the same dependency several times, serialised with different indents
            recipes = [recipes[0]] * n
            indent = [rng.choice([None, 0, 1, 2, 4]) for _ in range(n)]
        elif r < 0.35 and n >= 2:
            # two dependencies that differ only by whitespace inside a field
            import copy as _c
            recipes[1] = _c.deepcopy(recipes[0])
            recipes[0]["name"] = "my lib"
            recipes[1]["name"] = rng.choice(["mylib", "my  lib", "my\tlib", "my lib "])
            order = [0, 1] + order
            pieces = ["<p>w%d;</p>" % k for k in range(2)] + pieces
        ctx.guard(check_roundtrip, ctx, recipes, order, indent, pieces, witness={"deps": recipes, "order": order, "indent": indent, "pieces": pieces})
        ctx.case((recipes, order, indent, pieces), nontrivial=any(hot(r) for r in recipes))
        if rng.random() < 0.25:
            ind_ = indent[0] if isinstance(indent, list) else indent
            ctx.guard(check_serialised_after_change, ctx, recipes[0], ind_, rng, witness={"dep": recipes[0], "indent": ind_, "scenario": "serialised, changed, serialised again"})
        ctx.state("copies_x_distinct", (len(order), len(set(order))))
    # sizes ordinary pages never reach: 70 dependencies serialised 200 times in a text of a few hundred thousand characters
    if ctx.shard == 0:
        for j in range(2):
            big = [rand_dep_recipe(rng, k) for k in range(70)]
            big_order = [rng.randrange(70) for _ in range(200)]
            big_pieces = ["<p>%d %s</p>" % (k, "filler & text " * rng.choice([0, 3, 400])) for k in range(201)]
            if j:
                big_pieces[100] += PLACEHOLDER
            ctx.guard(check_roundtrip, ctx, big, big_order, [rng.choice([None, 0, 2]) for _ in big], big_pieces, witness={"what": "70 dependencies, 200 serialised copies"})
            ctx.case(("big-roundtrip", j), nontrivial=True)
            ctx.count("very_large_texts")
    for _ in range(ctx.budget(300, 20000)):
        n = rng.randint(0, 4)
        recipes = [rand_dep_recipe(rng, k, benign_head=True) for k in range(n)]
        for r in recipes:
            r["name"] = re.sub(r"[^A-Za-z0-9_.-]", "", r["name"])
            if rng.random() < 0.4:
                r["source"] = {"subdir": "some/dir%d" % rng.randint(1, 3)}
                r["script"] = [{"src": "f.js"}]
        n_place = rng.choice([0, 1, 1, 3])
        lp, iv = rng.choice(["lib", None, "a/b", ""]), rng.random() < 0.6
        ctx.guard(check_render, ctx, recipes, n_place, lp, iv, rng, witness={"deps": recipes, "placeholders": n_place, "lib_prefix": lp, "include_version": iv})
        ctx.case((recipes, n_place, lp, iv), nontrivial=n >= 1 and n_place >= 1)
        ctx.state("placeholders", n_place)
    for _ in range(ctx.budget(300, 20000)):
        kids = []
        for k in range(rng.randint(0, 4)):
            if rng.random() < 0.6:
                kids.append(rand_dep_recipe(rng, k % 3, benign_head=True))
                kids[-1]["name"] = "jd%d" % (k % 3)
            else:
                kids.append(gen.TAG(rng.choice(["p", "span"]), {"k": "text", "s": "t%d <&>" % k}, ws=rng.random() < 0.5))
        tree = gen.TAG("div", *kids, gen.TAG("section", {"k": "text", "s": "x"}))
        if rng.random() < 0.2:
            # a fragment that carries dependencies but no markup of its own
            only = [k for k in kids if k["k"] == "dep"]
            tree = {"k": "list", "t": "taglist", "c": only + ([{"k": "headc", "c": [gen.TAG("title", {"k": "text", "s": "from head_content"})]}] if rng.random() < 0.5 else [])}
            ctx.count("json_mode_fragments_without_markup")
        if rng.random() < 0.3:
            ctx.guard(check_failed_then_retry, ctx, [k for k in kids if k["k"] == "dep"] or [rand_dep_recipe(rng, 0, benign_head=True)], rng, witness={"scenario": "refused, repaired, retried"})
        ctx.guard(check_json_mode, ctx, tree, witness={"tree": tree})
        if rng.random() < 0.2:
            ctx.guard(check_json_mode_jsx, ctx, rng, ctx.counters["oracle.json_mode"], witness={"scenario": "JSX component in JSON mode"})
        ctx.case(tree, nontrivial=any(k["k"] == "dep" for k in kids))
