"""C02 - plain-text children are inert data.

Monitors: (a) escape contract on the live html_escape (every call); (b) boundary oracle:
the same construction is rendered once with an inert placeholder and once with the
hostile leaf; the output must be prefix + E + suffix with the placeholder's prefix and
suffix, E must unit-decode to the leaf under the text escape set, and the tokenizer must
see exactly the placeholder rendering's tag sequence (nothing opened/closed/commented)."""

from __future__ import annotations

import itertools

from ..loader import ht
from ..ref import charref, tokenizer
from ..mon import contracts, escape
from .. import gen

ID = "C02"
LEVEL = "exploration"
RULE = ("every Unicode scalar value through html_escape (both tables) and, in 4096-code-point blocks, through "
        "rendering paths; all strings up to a length bound over the alphabet & < > \" ' ; # a LF crossed with a "
        "matrix of child positions / ways of adding a child; random hostile strings and numbers beyond. A case "
        "is (path, string); non-trivial = the string contains at least one of & < > ; distinct by (path, string) digest")
ASSUMPTIONS = ["stdlib html.unescape defines what a character reference decodes to",
               "layout around a text leaf does not depend on the leaf's characters (checked: a mismatch is reported)"]
SHARDS = {"quick": 1, "thorough": 16}

PH = "PLACEHOLDERq7"
span, div, p, b = ht.span, ht.div, ht.p, ht.tags.b


class HostileInt(int):
    """int subclass (like an IntEnum with a custom __str__) whose text needs escaping."""

    def __str__(self):
        return "<%d&>" % int(self)


class HostileFloat(float):
    def __str__(self):
        return "1<2&&3>%r" % float(self)


class _TFLeaf:
    def __init__(self, x, as_list):
        self.x, self.as_list = x, as_list

    def tagify(self):
        if self.as_list == "after":
            return ht.TagList(span("label"), self.x)
        if self.as_list == "after3":
            return ht.TagList("a", span(), self.x).tagify()
        if self.as_list == "empty":
            return ht.TagList()
        return ht.TagList(self.x, "y") if self.as_list else self.x


def _dep(name="c02dep"):
    return ht.HTMLDependency(name, "1.0", head="<meta name='%s'>" % name)


def _head_content_after_html_twin(x):
    """Another widget put the same characters into the head as markup; the plain text twin is still there, and inert.
    (The raw twin - emitted first - and the listing line are cut out of the result.)"""
    import re as _re

    sx = str.__str__(x) if isinstance(x, str) else str(x)
    # (a fixed "<" goes with the leaf, so that the two heads differ as markup whatever the leaf is)
    page = ht.TagList(div("widget", ht.head_content(ht.HTML("<"), ht.HTML(sx))), div("debug", ht.head_content("<", x)))
    out = ht.HTMLDocument(page).render()["html"]
    out = _re.sub(r"<script type=\"application/html-dependencies\">[^<]*</script>", "<listing/>", out, count=1)
    at = out.index("<listing/>") + len("<listing/>")
    i = out.index("<" + sx, at)
    return out[:i] + "<TWIN/>" + out[i + 1 + len(sx):]


def _app(t, *xs):
    t.append(*xs)
    return t


def _ext(t, xs):
    t.extend(xs)
    return t


def _ins(t, i, x):
    t.insert(i, x)
    return t


def _iadd(tl, x):
    tl += x
    return tl


def _displayed(x):
    """The REPL display path: values displayed inside `with tag:` are appended as children."""
    import sys

    old = sys.displayhook
    sys.displayhook = lambda v: None
    t = div()
    try:
        with t:
            sys.displayhook(span("k"))
            sys.displayhook(x)
    finally:
        sys.displayhook = old
    return t


def _after_html_twin(x):
    """The equal text was rendered as trusted HTML() just before: the plain twin is still escaped."""
    div(ht.HTML(str(x))).get_html_string()
    ht.TagList(ht.HTML(str(x)), span()).get_html_string()
    return div(x).get_html_string()


def _after_failed_script_render(x):
    """A rendering of a <script> that fails half-way must not leave later renderings in raw-text mode."""
    for bad in (ht.tags.script("a", _TFLeaf("u", False), "b"), ht.tags.style("c", _TFLeaf("u", True))):
        try:
            bad.get_html_string()
        except Exception:
            pass
    return div(span(), x).get_html_string()


def _renamed_from_script(x, multi):
    t = ht.tags.script(x, "t") if multi else ht.tags.script(x)
    t.name = "section"
    return t.get_html_string()


def _head_content_path(x, with_tag):
    """Plain strings passed to head_content() are text like anywhere else; the listing line (whose name is a content
    hash) is cut out so that the surroundings do not depend on the leaf."""
    import re as _re

    hc = ht.head_content(x, ht.tags.title("t")) if with_tag else ht.head_content(x)
    out = ht.HTMLDocument(div("b", hc)).render()["html"]
    return _re.sub(r"<script type=\"application/html-dependencies\">[^<]*</script>", "<listing/>", out)


def _edit_after_render(x, how):
    """The text arrives by an edit that keeps the number of children, after the element was already rendered once."""
    t = div("first", "old text", "last") if how != "taglist" else ht.TagList("first", "old text", "last")
    t.get_html_string()
    str(t)
    kids = t if how == "taglist" else t.children
    if how == "pop_insert":
        kids.pop(1)
        kids.insert(1, x)
    elif how == "slice":
        kids[1:2] = [x]
    else:
        kids[1] = x
    return t.get_html_string()


_SCRATCH = []


def _scratch_dir():
    if not _SCRATCH:
        import atexit
        import shutil
        import tempfile

        _SCRATCH.append(tempfile.mkdtemp(prefix="hv-c02-"))
        atexit.register(shutil.rmtree, _SCRATCH[0], True)
    return _SCRATCH[0]


def _saved_file(x, via):
    """What save_html() actually writes (read back as UTF-8 without newline translation)."""
    import os

    f = os.path.join(_scratch_dir(), "page.html")
    obj = div(x, ht.tags.em()) if via == "tag" else ht.TagList(span(), x) if via == "list" else ht.HTMLDocument(div("a"), x)
    obj.save_html(f)
    with open(f, encoding="utf-8", newline="") as fh:
        return fh.read()


def _json_roundtrip_head(x):
    """Text in a dependency's head survives serialisation to JSON and recovery by HTMLTextDocument as the same inert text."""
    dep = ht.HTMLDependency("d", "1", head=[x, ht.tags.title("t")])
    ser = dep.serialize_to_script_json().get_html_string()
    return ht.HTMLTextDocument("<head>@@</head><body>" + ser + "</body>", deps_replace_pattern="@@").render()["html"]


def _doc_append(x):
    d = ht.HTMLDocument(div("a"))
    d.append(x, span("z"))
    return d


PATHS = {
    "saved_file_tag": lambda x: _saved_file(x, "tag"),
    "saved_file_list": lambda x: _saved_file(x, "list"),
    "saved_file_document": lambda x: _saved_file(x, "doc"),
    "json_roundtrip_head_text": _json_roundtrip_head,
    "setitem_after_render": lambda x: _edit_after_render(x, "setitem"),
    "setitem_taglist_after_render": lambda x: _edit_after_render(x, "taglist"),
    "pop_insert_after_render": lambda x: _edit_after_render(x, "pop_insert"),
    "slice_assign_after_render": lambda x: _edit_after_render(x, "slice"),
    "head_content_text": lambda x: _head_content_path(x, False),
    "head_content_text_and_tag": lambda x: _head_content_path(x, True),
    "dependency_head_list": lambda x: ht.HTMLDocument(div(ht.HTMLDependency("d", "1", head=[x, ht.tags.title("t")]))).render()["html"],
    "after_html_twin": _after_html_twin,
    "after_failed_script_render": _after_failed_script_render,
    "renamed_from_script": lambda x: _renamed_from_script(x, False),
    "renamed_from_style_multi": lambda x: _renamed_from_script(x, True),
    "parent_styled_button": lambda x: ht.Tag("styled-button", x).get_html_string(),
    "parent_script_editor_multi": lambda x: ht.Tag("script-editor", span(), x).get_html_string(),
    "parent_stylesheet": lambda x: ht.Tag("stylesheet", x, "t").get_html_string(),
    "parent_title": lambda x: ht.tags.title(x).get_html_string(),
    "parent_textarea_multi": lambda x: ht.tags.textarea(x, "t").get_html_string(),
    "parent_svg_title": lambda x: ht.svg.title(x).get_html_string(),
    "parent_noscript": lambda x: ht.tags.noscript(x).get_html_string(),
    "parent_pre": lambda x: ht.pre(x, span()).get_html_string(),
    "taglist_iadd_list": lambda x: _iadd(ht.TagList(span()), [x, "t"]).get_html_string(),
    "taglist_iadd_str": lambda x: _iadd(ht.TagList(p()), x).get_html_string(),
    "taglist_insert": lambda x: _ins(ht.TagList(span(), div()), 1, x).get_html_string(),
    "taglist_slice": lambda x: ht.TagList(span(), x, div())[1:].get_html_string(),
    "taglist_mul": lambda x: (ht.TagList(x, span()) * 2).get_html_string(),
    "displayed_in_with_block": lambda x: _displayed(x).get_html_string(),
    "document_append": lambda x: _doc_append(x).render()["html"],
    "copy_then_render": lambda x: __import__("copy").copy(div(span(), x)).get_html_string(),
    "tagify_then_render": lambda x: div(p(), x).tagify().get_html_string(),
    "save_html_roundtrip": lambda x: str(div(x, ht.tags.em())),
    "only_child_block": lambda x: div(x).get_html_string(),
    "only_child_inline": lambda x: span(x).get_html_string(),
    "only_child_custom": lambda x: ht.Tag("my-el", x).get_html_string(),
    "only_child_svg": lambda x: ht.svg.text(x).get_html_string(),
    "first_of_several": lambda x: div(x, span("k")).get_html_string(),
    "middle_inline": lambda x: div(span("a"), x, span("b")).get_html_string(),
    "last_after_block": lambda x: div(p("a"), x).get_html_string(),
    "between_blocks": lambda x: div(p("a"), x, p("b")).get_html_string(),
    "in_inline_parent_multi": lambda x: span(b("q"), x).get_html_string(),
    "adjacent_text": lambda x: div("a", x, "b").get_html_string(),
    "twice": lambda x: div(x, span(), x).get_html_string(),
    "list_indent0": lambda x: ht.TagList(x, div()).get_html_string(),
    "list_indent3": lambda x: ht.TagList(div(), x).get_html_string(indent=3),
    "list_only": lambda x: ht.TagList(x).get_html_string(),
    "list_str": lambda x: str(ht.TagList(span(), x)),
    "nested_seq": lambda x: div([("a", [x])], "b").get_html_string(),
    "nested_taglist": lambda x: div(ht.TagList(ht.TagList(x)), span()).get_html_string(),
    "append": lambda x: _app(div("a"), x).get_html_string(),
    "append_many": lambda x: _app(div(), span(), x, span()).get_html_string(),
    "extend": lambda x: _ext(div(span()), [x]).get_html_string(),
    # one-shot iterables handed to extend() / += : every item arrives, once
    "extend_generator": lambda x: _ext(div(span()), (y for y in [x, "t"])).get_html_string(),
    "children_extend_iterator": lambda x: _ext(div(span()).children, iter(["a", x])).get_html_string(),
    "taglist_iadd_map": lambda x: _iadd(ht.TagList(p()), map(lambda y: y, [x, span()])).get_html_string(),
    "insert": lambda x: _ins(div(span(), span()), 1, x).get_html_string(),
    "insert_front_only": lambda x: _ins(div(), 0, x).get_html_string(),
    "tagify_single": lambda x: div(_TFLeaf(x, False)).render()["html"],
    "tagify_list": lambda x: div(span(), _TFLeaf(x, True)).render()["html"],
    "tagify_list_then_dependency": lambda x: div(_TFLeaf(x, "after"), _dep()).render()["html"],
    "tagify_list3_then_dependencies": lambda x: str(ht.TagList(_TFLeaf(x, "after3"), "t", _dep("a"), span(), _dep("b"))),
    "tagify_empty_then_text_then_dependency": lambda x: div(_TFLeaf(None, "empty"), x, _dep(), _TFLeaf(x, "after"), _dep("z")).render()["html"],
    "head_content_after_html_twin": _head_content_after_html_twin,
    "str_tag": lambda x: str(div(x, ht.tags.i())),
    "render_tag": lambda x: p(x).render()["html"],
    "repr_html": lambda x: div(div(x))._repr_html_(),
    "deep": lambda x: div(span(div(span(p(x, span())), "t"))).get_html_string(),
    "void_with_child": lambda x: ht.br(x).get_html_string(),
    "void_with_children": lambda x: ht.img(x, span()).get_html_string(),
    "eol_crlf_indent2": lambda x: div(p(), x, p()).get_html_string(indent=2, eol="\r\n"),
    "eol_empty": lambda x: div(p(), x).get_html_string(eol=""),
    "document_body": lambda x: ht.HTMLDocument(div(x)).render()["html"],
    "document_body_text": lambda x: ht.HTMLDocument(x, span()).render()["html"],
    "document_head": lambda x: ht.HTMLDocument(ht.tags.html(ht.tags.head(ht.tags.title(x)), ht.tags.body("z"))).render()["html"],
    "taglist_add": lambda x: (ht.TagList(span()) + x).get_html_string(),
    "taglist_radd": lambda x: (x + ht.TagList(span())).get_html_string(),
    "taglist_add_list": lambda x: (ht.TagList(p()) + [x, span()]).get_html_string(),
    "tag_attr_and_child": lambda x: div({"title": "t"}, x, id="i").get_html_string(),
}
# paths whose operation takes a node or an iterable, not a bare number (item assignment stores what it is given: numbers are
# converted by the child-adding operations - constructor, append, extend, insert, + - which is where the statement puts them)
NOT_FOR_NUMBERS = ("taglist_add", "taglist_radd", "tagify_single", "taglist_iadd_str", "setitem_after_render", "setitem_taglist_after_render", "slice_assign_after_render")
QUICK_BLOCK_PATHS = ["tagify_list_then_dependency", "only_child_block", "middle_inline", "list_indent3", "tagify_list", "append", "between_blocks", "saved_file_tag", "json_roundtrip_head_text"]


def _tagseq(s):
    if s.startswith("<!DOCTYPE html>\n"):
        s = s[len("<!DOCTYPE html>\n"):]
    return [(t[0], t[1]) for t in tokenizer.tokenize(s) if t[0] in ("open", "close")]


_PLACE = {}


def _placeholder(path):
    r = _PLACE.get(path)
    if r is None:
        out = PATHS[path](PH)
        n = out.count(PH)
        parts = out.split(PH)
        try:
            seq = _tagseq(out)
        except tokenizer.Forged as f:
            # the surroundings of a harmless leaf are not markup a tokenizer accepts: reported by check_case for every leaf
            seq = ("forged", str(f), out[:600])
        r = (parts, seq, n)
        _PLACE[path] = r
    return r


def check_case(ctx, path, s, is_num=False):
    """s is the leaf (str, or a number when is_num)."""
    original = str.__str__(s) if isinstance(s, str) else str(s)   # (a str subclass is the text it holds, whatever its own str() says)
    try:
        parts, tagseq, n = _placeholder(path)
    except Exception as e:
        ctx.violation("render-raises", "path %s raised %r for a leaf without any special character" % (path, e), {"path": path, "leaf": PH})
        return
    if isinstance(tagseq, tuple) and tagseq[:1] == ("forged",):
        ctx.violation("text-forges-markup", "path %s: the markup around a leaf without any special character is not well formed: %s" % (path, tagseq[1]), {"path": path, "leaf": PH, "output": tagseq[2]})
        return
    if n == 0:
        ctx.violation("text-leaf-not-emitted", "path %s: a leaf placed as a child does not occur in the output at all" % path, {"path": path, "leaf": original[:300]})
        return
    try:
        out = PATHS[path](s)
    except Exception as e:
        ctx.violation("render-raises", "path %s raised %r for a plain leaf" % (path, e), {"path": path, "leaf": original[:300]})
        return
    ctx.count("oracle.boundary")
    # cut: prefix + E + (mid + E)* + suffix
    pos = 0
    ok = True
    segs = []
    if not out.startswith(parts[0]):
        ok = False
    else:
        pos = len(parts[0])
        for k in range(1, len(parts)):
            nxt = parts[k]
            if k == len(parts) - 1:
                end = len(out) - len(nxt)
                if end < pos or not out.endswith(nxt):
                    ok = False
                    break
            else:
                # middle separators contain markup, which E (escaped) can never contain
                end = out.find(nxt, pos) if nxt else pos
                if end < 0:
                    ok = False
                    break
            segs.append(out[pos:end])
            pos = end + len(nxt)
    wit = {"path": path, "leaf": original[:400], "output": out[:1200], "is_num": is_num}
    if not ok:
        ctx.violation("text-changes-surroundings",
                      "path %s: markup around the leaf differs from the placeholder rendering" % path, wit)
        return
    for E in segs:
        why = charref.check_escaped(E, original, charref.TEXT_SET)
        if why:
            ctx.violation("text-leaf-not-inert", "path %s: emitted %r for leaf %r: %s" % (path, E[:80], original[:60], why), wit)
            return
    try:
        seq = _tagseq(out)
    except tokenizer.Forged as f:
        ctx.violation("text-forges-markup", "path %s: %s" % (path, f), wit)
        return
    if seq != tagseq:
        ctx.violation("text-forges-markup", "path %s: tag sequence changed by the leaf" % path, wit)


def replay(ctx, w):
    leaf = w["leaf"]
    check_case(ctx, w["path"], leaf, False)


ALPHABET = "&<>\"';#a\n"


def scalar_blocks(size=4096):
    cur = []
    for cp in itertools.chain(range(0, 0xD800), range(0xE000, 0x110000)):
        cur.append(chr(cp))
        if len(cur) == size:
            yield "".join(cur)
            cur = []
    if cur:
        yield "".join(cur)


def _reinstall(ctx):
    escape.install(ctx)


def run(ctx):
    escape.install(ctx)
    try:
        _run(ctx)
    finally:
        contracts.unpatch_all()


def _run(ctx):
    rng = ctx.rng
    ctx.require("contract.html_escape", 1000)
    ctx.require("oracle.boundary", 1000)
    if ctx.thorough and ctx.shard == 0:
        from .. import repotests

        contracts.unpatch_all()  # the plugin installs its own monitors in the pytest process
        repotests.run_under(ctx, ["escape"])
        _reinstall(ctx)
    paths = list(PATHS)
    for pth in paths:
        try:
            _placeholder(pth)
        except Exception:
            pass    # reported by check_case (render-raises) for every leaf that goes through this path
    ctx.sample({"path": "between_blocks", "leaf": "<&>", "output": PATHS["between_blocks"]("<&>")})

    # 1. every scalar value through the exported html_escape, both tables (sharded by block)
    ncp = 0
    for bi, block in enumerate(scalar_blocks()):
        if not ctx.mine(bi):
            continue
        for c in block:
            r = ht.html_escape(c)
            if r is not c and r != c or c in "&<>":
                why = charref.check_escaped(r, c, charref.TEXT_SET)
                if why:
                    ctx.violation("escape-codepoint:text", "html_escape(%r) -> %r: %s" % (c, r, why), {"cp": ord(c), "result": r})
            r = ht.html_escape(c, attr=True)
            if r != c or c in charref.ATTR_SET:
                why = charref.check_escaped(r, c, charref.ATTR_SET)
                if why:
                    ctx.violation("escape-codepoint:attr", "html_escape(%r, attr=True) -> %r: %s" % (c, r, why), {"cp": ord(c), "result": r})
        ncp += len(block)
        # 2. the whole block as one leaf through rendering paths
        for pth in (paths if ctx.thorough else QUICK_BLOCK_PATHS):
            check_case(ctx, pth, block)
            ctx.case(nontrivial=bool(set(block) & set("&<>")), dg="blk%d/%s" % (bi, pth))
            ctx.state("path_x_class", (pth, "block"))
    ctx.count("codepoints.html_escape", ncp)
    ctx.exhaustive["unicode_scalar_values_through_html_escape"] = True
    ctx.notes["codepoints_checked"] = ctx.counters["codepoints.html_escape"]

    # 3. exhaustive short strings over the metacharacter alphabet x path matrix
    maxlen_all = 6 if ctx.thorough else 3
    idx = 0
    for L in range(0, maxlen_all + 1):
        for tup in itertools.product(ALPHABET, repeat=L):
            idx += 1
            if not ctx.mine(idx):
                continue
            s = "".join(tup)
            if ctx.thorough and L >= 5:
                # length 5-6: every string through 4 rotating paths (all strings, all paths covered jointly)
                use = [paths[(idx + k * 7) % len(paths)] for k in range(4)]
            else:
                use = paths
            for pth in use:
                check_case(ctx, pth, s)
                ctx.case(nontrivial=bool(set(s) & set("&<>")), dg=pth + "\0" + s)
            ctx.count("short_strings")
    if not ctx.thorough:
        for tup in itertools.product(ALPHABET, repeat=4):
            s = "".join(tup)
            for pth in ("only_child_block", "between_blocks", "tagify_list"):
                check_case(ctx, pth, s)
                ctx.case(nontrivial=bool(set(s) & set("&<>")), dg=pth + "\0" + s)
            ctx.count("short_strings")
    ctx.exhaustive["strings_len_le_%d_over_9_char_alphabet" % (maxlen_all if ctx.thorough else 4)] = True
    for pth in paths:
        ctx.state("path_x_class", (pth, "short"))

    # 3b. value-equal numbers of different types (and falsy ones) through every path
    for pth in paths:
        if pth in NOT_FOR_NUMBERS:
            continue
        for v in (0, 0.0, -0.0, False, True, 1, 1.0, -1, 10**20, 1e20):
            check_case(ctx, pth, v, True)
            ctx.case(nontrivial=False)
        ctx.state("path_x_class", (pth, "typed-number"))
    # 3c. very long leaves (far beyond any buffer or fast-path size) through every path
    if ctx.shard == 0:
        for j, pth in enumerate(paths):
            big = ("<&>" + "a" * (997 + j)) * (110 + j % 7) + "&"
            check_case(ctx, pth, big)
            ctx.case(nontrivial=True, dg=pth + "\0big")
            ctx.count("very_long_leaves")
    # 4. random hostile strings and numbers
    for _ in range(ctx.budget(3000, 3000000)):
        pth = rng.choice(paths)
        if rng.random() < 0.15 and pth not in NOT_FOR_NUMBERS:
            v = gen._num(gen.number_of(rng))
            if rng.random() < 0.3:
                v = HostileInt(rng.randint(-5, 99)) if rng.random() < 0.5 else HostileFloat(rng.random())
                ctx.count("numbers_with_hostile_str")
            check_case(ctx, pth, v, True)
            ctx.case(nontrivial=False)
            ctx.state("path_x_class", (pth, "number"))
            ctx.count("numbers")
        else:
            cls = rng.choice(["word", "meta", "markup", "ws", "nl", "exotic", "mixed", "empty", "long", "backslash", "backslash"])
            s = gen.text_of(rng, cls)
            if rng.random() < 0.06:
                s = gen.FormatStr(s) if rng.random() < 0.5 else gen.StrSub(s)    # a str subclass (one of them with a str()/format() of its own)
                ctx.count("str_subclass_leaves")
            check_case(ctx, pth, s)
            ctx.case(nontrivial=bool(set(s) & set("&<>")), dg=pth + "\0" + str.__str__(s))
            ctx.state("path_x_class", (pth, cls))
