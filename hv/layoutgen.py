"""Generators for the layout checks (C05, C06, C07): trees over
{block tag, inline tag, void-inline, void-block, text, HTML, _repr_html_ object, metadata,
dependency} with uniquely identified, markup-free content."""

from __future__ import annotations

from . import gen

KINDS = ["block", "inline", "void_inline", "void_block", "text", "html", "obj", "meta", "dep"]
BLOCKS = ["div", "p", "section", "ul", "li", "table", "h2", "x-block", "pre", "textarea", "title", "DIV", "linearGradient", "lineargradient", "X-Block"]
INLINES = ["span", "a", "b", "em", "code", "x-inl", "pre", "textarea", "svg", "button", "textPath", "textpath", "EM", "Span", "SPAN"]
VOID_INLINE = ["br", "img", "input", "wbr"]
VOID_BLOCK = ["hr", "meta", "link", "col"]


class Ids:
    def __init__(self):
        self.n = 0

    def next(self, prefix):
        self.n += 1
        return "%s%d;" % (prefix, self.n)


def leaf(kind, ids, rng=None, text_ws=False, inline_only=False):
    if kind == "text":
        s = ids.next("t")
        if text_ws and rng is not None and rng.random() < 0.35:
            s = rng.choice([s + "\nline2", "a b " + s, s + " ", " " + s, s + "\n", "\n" + s, "", s + " \t", s + "  "])
        r = {"k": "text", "s": s}
        if rng is not None and rng.random() < 0.08:
            r["sub"] = True  # a str subclass is still a plain text child
        return r
    if kind == "html":
        r = {"k": "html", "s": ids.next("h")}
        if rng is not None and rng.random() < 0.08:
            r["sub"] = True
        if text_ws and rng is not None and rng.random() < 0.2:
            r["s"] = rng.choice(["\n", "\r\n", "\n\n", " ", "\r"]) + r["s"]     # raw markup may start with a line break of its own
        elif text_ws and rng is not None and rng.random() < 0.15:
            r["s"] = rng.choice(["<!-- %s -->", "<!--%s-->", "<!--[if IE]>%s<![endif]-->", "<?pi %s?>", "<![CDATA[%s]]>"]) % r["s"]   # a comment is raw markup like any other
        return r
    if kind == "obj":
        r = {"k": "obj", "s": ids.next("o")}
        if rng is not None and rng.random() < 0.3:
            r["taglike"] = True
        if text_ws and rng is not None and rng.random() < 0.2:
            r["s"] = rng.choice(["\n", "\r\n", "\n  ", " "]) + r["s"]
        if text_ws and rng is not None and rng.random() < 0.2:
            r["s"] = r["s"] + rng.choice(["\n", "\r\n", "\n\n", " ", "\n  "])   # rich reprs usually end with a line break of their own: verbatim
        return r
    if kind == "objtf":
        return {"k": "obj", "s": ids.next("o"), "also_tagifiable": True, "direct_only": True}
    if kind == "nodelist":
        from .ref import layout as _layout

        n = rng.choice([1, 2, 3]) if rng is not None else 2
        items = []
        for j in range(n):
            c = rng.random() if rng is not None else 0.5
            items.append({"k": "text", "s": ids.next("t")} if c < 0.4 else gen.TAG("b", {"k": "text", "s": ids.next("t")}, ws=False, via_fn=False) if c < 0.75
                         else gen.TAG("div", {"k": "text", "s": ids.next("t")}, ws=True, via_fn=False) if not inline_only else {"k": "html", "s": ids.next("h")})
        return {"k": "obj", "s": _layout.list_str(items, 0, "\n"), "nodelist": items, "direct_only": True}
    if kind == "meta":
        return {"k": "meta", "sub": True} if ids.n % 3 == 0 else {"k": "meta"}
    if kind == "dep":
        return {"k": "dep", "name": "d%d" % (ids.n % 3), "version": "1.%d" % (ids.n % 2), "sub": ids.n % 4 == 0, "version_object": ids.n % 5 == 0}
    raise ValueError(kind)


def node_of_kind(kind, ids, rng, children=()):
    how = rng.choice(gen.HOWS) if rng.random() < 0.3 else "ctor"
    if rng.random() < 0.06 and children and all(c["k"] not in ("obj", "none") for c in children):
        how = "displayed"    # the children arrive by being displayed, one after the other, inside the element's `with` block
    sub = {"subclass": True} if rng.random() < 0.05 else {}
    fixed = bool(sub) and rng.random() < 0.5
    if kind == "block":
        return gen.TAG("x-card" if fixed else rng.choice(BLOCKS), *children, ws=True, via_fn=False, attrs=_attrs(rng, ids), how=how, **sub)
    if kind == "inline":
        return gen.TAG("x-card" if fixed else rng.choice(INLINES), *children, ws=False, via_fn=False, attrs=_attrs(rng, ids), how=how, **sub)
    if kind == "void_inline":
        return gen.TAG(rng.choice(VOID_INLINE), ws=False, via_fn=False, attrs=_attrs(rng, ids))
    if kind == "void_block":
        return gen.TAG(rng.choice(VOID_BLOCK), ws=True, via_fn=False, attrs=_attrs(rng, ids))
    return leaf(kind, ids, rng)


def _attrs(rng, ids):
    r = rng.random()
    if r > 0.92:
        # attributes that say something about white space / display to a BROWSER say nothing to the writer
        return [["style", {"t": "str", "s": rng.choice(["white-space: pre-wrap;", "white-space:pre", "display: inline;", "display:block; white-space: nowrap"])}],
                ["id", {"t": "str", "s": ids.next("i")}], ["contenteditable", {"t": "true"}]][: rng.randint(1, 3)]
    if r < 0.3:
        return [["id", {"t": "str", "s": ids.next("i")}]]
    if r < 0.4:
        return [["id", {"t": "str", "s": ids.next("i")}], ["class", {"t": "str", "s": "c1 c2"}], ["hidden", {"t": "true"}]][: rng.randint(2, 3)]
    return []


def rand_layout_tree(rng, ids, depth, valid=True, inside_inline=False, max_children=5, text_ws=False,
                     kinds_w=None, root_kind=None, direct_only_kinds=False, _under_tag=False):
    """Random subtree.  valid=True keeps block tags out of inline tags."""
    w = kinds_w or {"block": 4, "inline": 4, "void_inline": 1, "void_block": 1, "text": 4, "html": 1, "obj": 1,
                    "meta": 1, "dep": 0.5}
    if "rawtext" not in w:
        w = dict(w, rawtext=0.6)
    if direct_only_kinds and _under_tag:
        # kinds that only make sense when markup is asked for directly (get_html_string() without tagify() first)
        w = dict(w, objtf=0.5, nodelist=0.5)
    ks = [k for k in w if not (valid and inside_inline and k in ("block", "void_block"))]
    kind = root_kind or rng.choices(ks, [w[k] for k in ks])[0]
    if depth <= 0 and kind in ("block", "inline"):
        kind = "text"
    if kind in ("block", "inline"):
        n = rng.choice([0, 1, 1, 2, 2, 3, 4, max_children])
        ii = inside_inline or kind == "inline"
        kids = [rand_layout_tree(rng, ids, depth - 1, valid, ii, max_children, text_ws, kinds_w, None, direct_only_kinds, True) for _ in range(n)]
        # occasionally the very same object appears twice among the siblings
        tagkids = [k for k in kids if k["k"] == "tag"]
        if tagkids and rng.random() < 0.08:
            again = rng.choice(tagkids)
            again.setdefault("share", ids.next("sh"))
            kids.insert(rng.randint(0, len(kids)), again)
        return node_of_kind(kind, ids, rng, kids)
    if kind == "text":
        return leaf("text", ids, rng, text_ws)
    if kind in ("html", "obj"):
        return leaf(kind, ids, rng, text_ws)
    if kind in ("objtf", "nodelist"):
        return leaf(kind, ids, rng, text_ws, inline_only=valid and inside_inline)
    if kind == "rawtext":
        # <script>/<style>: text children are written verbatim, the layout rules are the same as for any tag
        n = rng.choice([0, 1, 2, 2, 3])
        kids = [{"k": "text", "s": ids.next("s") + rng.choice(["", "", "//note", "/*c*/", "url(//cdn.example/x)", "http://e.org/"])} for _ in range(n)]
        if n and rng.random() < 0.2:
            kids.append({"k": "meta"})
        ws = rng.random() < 0.5 and not (valid and inside_inline)
        if rng.random() < 0.3 and depth > 0:
            # (unusual but allowed) element children: they are laid out like anywhere else
            for _ in range(rng.randint(1, 2)):
                kids.insert(rng.randint(0, len(kids)), node_of_kind("block" if rng.random() < 0.5 and (ws or not valid) else "inline", ids, rng,
                                                                     [leaf("text", ids)] if rng.random() < 0.5 else []))
        return gen.TAG(rng.choice(["script", "style"]), *kids, ws=ws, via_fn=False, attrs=_attrs(rng, ids))
    return node_of_kind(kind, ids, rng)


def contains_ws_tag(r) -> bool:
    return any(x["k"] == "tag" and x["ws"] for x in gen.walk(r))


def kind_of(r) -> str:
    k = r["k"]
    if k == "tag":
        if r["ws"]:
            return "void_block" if r["name"] in gen.VOID and not r["c"] else "block"
        return "void_inline" if r["name"] in gen.VOID and not r["c"] else "inline"
    return k


def pair_skeletons(ids, rng, allow_block_in_inline=False):
    """Every ordered pair (prev kind, cur kind) x parent kind x position, deterministically."""
    out = []
    for parent in ("block", "inline", "list"):
        for a in KINDS:
            for b in KINDS:
                if parent == "inline" and not allow_block_in_inline and ({a, b} & {"block", "void_block"}):
                    continue
                for pos in ("first", "middle", "last", "only"):
                    def mk(kind):
                        kids = [leaf("text", ids)] if kind in ("block", "inline") and rng.random() < 0.7 else []
                        if kind in ("block", "inline") and rng.random() < 0.3:
                            kids.append(node_of_kind("inline", ids, rng, [leaf("text", ids)]))
                        return node_of_kind(kind, ids, rng, kids)

                    pre = [node_of_kind("inline", ids, rng, [leaf("text", ids)])]
                    post = [leaf("text", ids)]
                    kids = [mk(a), mk(b)]
                    if pos == "middle":
                        kids = pre + kids + post
                    elif pos == "first":
                        kids = kids + post
                    elif pos == "last":
                        kids = pre + kids
                    if parent == "list":
                        out.append(({"k": "list", "t": "taglist", "c": kids}, (parent, a, b, pos)))
                    else:
                        out.append((node_of_kind(parent, ids, rng, kids), (parent, a, b, pos)))
    return out
