"""Seeded generators of JSON-able recipes and the builder that turns a recipe into live
htmltools objects through the public API.

Recipe grammar (dicts):
  {"k":"text","s":str}            plain string child
  {"k":"num","v":number}          int/float child
  {"k":"html","s":str}            HTML(s)
  {"k":"obj","s":str}             object whose _repr_html_() returns s
  {"k":"meta"}                    bare MetadataNode
  {"k":"dep","name","version", ...optional fields}   HTMLDependency
  {"k":"headc","c":[...]}         head_content(*children)
  {"k":"tf","c":[...],"ret":"list"|"one"}   object with tagify() returning its payload
  {"k":"tfobj","c":[...],"ret":...,"s":str} object with tagify() and _repr_html_()
  {"k":"list","t":"list"|"tuple"|"taglist","c":[...]}   nested container argument
  {"k":"none"}                    None child
  {"k":"tag","name","ws":bool,"attrs":[[name, valrecipe],...],"c":[...],"how":str}
Attribute value recipes: {"t":"str","s"} {"t":"html","s"} {"t":"num","v"} {"t":"true"}
                         {"t":"none"} {"t":"false"}
"""

from __future__ import annotations

import random

from .loader import ht, core

# ------------------------------------------------------------------ catalogues
VOID = ["area", "base", "br", "col", "command", "embed", "hr", "img", "input", "keygen",
        "link", "meta", "param", "source", "track", "wbr"]  # frozen from the C01 statement

HTML_TAG_NAMES = sorted(n for n in dir(ht.tags) if not n.startswith("_") and callable(getattr(ht.tags, n))
                        and getattr(getattr(ht.tags, n), "__module__", "") == "htmltools.tags")
SVG_TAG_NAMES = sorted(n for n in dir(ht.svg) if not n.startswith("_") and callable(getattr(ht.svg, n))
                       and getattr(getattr(ht.svg, n), "__module__", "") == "htmltools.svg")

CUSTOM_NAMES = ["x-y", "my-element", "a1", "H7", "Foo", "x-y:z", "svg:rect", "ns:tag-1", "custom.el", "T_t", "styled-button", "script-editor",
                "stylesheet", "scripts", "brx", "input-group", "linked",
                # a prefix in front of / a suffix behind a void or raw-text name makes another, ordinary element
                "atom:link", "x:br", "my:input", "media:embed", "svg:img", "xhtml:meta", "br:x", "img.big", "x:script", "svg:style", "hr-", "x-hr"]
BLOCK_NAMES = ["div", "p", "section", "ul", "li", "h1", "table", "tr", "td", "form", "nav", "blockquote"]
INLINE_NAMES = ["span", "a", "b", "i", "em", "strong", "code", "small", "sub", "label", "q", "kbd"]

ATTR_NAMES = ["id", "class", "style", "href", "title", "data-x", "data-a-b", "aria-label", "x:y", "@click",
              ":bind", "v-on.stop", "_u", "A", "a", "onclick", "value", "name", "lang", "dir", "role", "viewBox", "viewbox", "Data-X", "aria-hidden",
              "aria-checked", "hidden", "className", "htmlFor", "tabIndex", "readOnly", "for", "class-name", "acceptCharset", "xlink:href", "xml:lang",
              # names that keep a separator at the end / doubled in the middle once they are normalised
              "a__", "trail-", "x_-", "data-x-", "a__b", "b--c"]

# ------------------------------------------------------------------ text classes
META = "&<>\"';#\r\n"
MARKUPISH = ["</div>", "<!--", "-->", "<![CDATA[", "]]>", "&amp;", "&#60;", "&lt", "&lt;", "<script>",
             "</script>", "<b>", "&#x3c;", "&", "<", ">", "\"", "'", "&amp", "&#38;#60;", "<?php", "<!DOCTYPE",
             "<a href=\"x\">", "&gt;&lt;", "&#", "&#;", "&;", "&x;"]
WORDS = ["hello", "world", "foo", "bar", "lorem", "ipsum", "x", "y1", "Zed", "café", "中文"]
EXOTIC = ["\x00", "\x01", "\x0b", "\x0c", "\x1f", "\x7f", "\x85", "\xa0", " ", " ", "​", "‏",
          "‮", "﻿", "�", "￿", "\U0001f600", "\U0010ffff", "é", "ال", "퟿",
          ""]


def text_of(rng: random.Random, cls: str | None = None) -> str:
    cls = cls or rng.choice(["word", "word", "meta", "markup", "ws", "nl", "exotic", "mixed", "empty", "long", "backslash"])
    if cls == "word":
        return " ".join(rng.choice(WORDS) for _ in range(rng.randint(1, 3)))
    if cls == "meta":
        return "".join(rng.choice(META + "ab ") for _ in range(rng.randint(1, 10)))
    if cls == "markup":
        return "".join(rng.choice(MARKUPISH + WORDS) for _ in range(rng.randint(1, 4)))
    if cls == "ws":
        return rng.choice([" ", "  ", "\t", " a", "a ", " a ", "\n", "\n a \n", "\r\n", " \t x \t "])
    if cls == "nl":
        return "\n".join(rng.choice(WORDS + ["<", "&"]) for _ in range(rng.randint(2, 4)))
    if cls == "exotic":
        return "".join(rng.choice(EXOTIC + WORDS + list(META)) for _ in range(rng.randint(1, 6)))
    if cls == "mixed":
        return "".join(rng.choice(MARKUPISH + WORDS + EXOTIC + list(META) + [" "]) for _ in range(rng.randint(1, 8)))
    if cls == "backslash":
        return "".join(rng.choice(["C:\\new\\table.csv", "\\1", "\\g<0>", "\\", "a\\nb", "\\u0041", "\\\\", "\\t", "x", " ", "\\g<name>", "$1", "\\0"]) for _ in range(rng.randint(1, 4)))
    if cls == "empty":
        return ""
    if cls == "long":
        return rng.choice(WORDS + MARKUPISH) * rng.randint(50, 400)
    raise ValueError(cls)


def number_of(rng: random.Random):
    return rng.choice([0, 1, -1, 7, 42, 10**12, -3, 1.5, -0.25, 1e300, 1e-7, 2.0, 0.0, 1.0, "inf", "nan", 1234567.0, 0.30000000000000004, -0.0, 10**30,
                       True, False])


def tag_name(rng: random.Random) -> str:
    r = rng.random()
    if r < 0.45:
        return rng.choice(HTML_TAG_NAMES)
    if r < 0.60:
        return rng.choice(SVG_TAG_NAMES)
    if r < 0.72:
        return rng.choice(VOID)
    if r < 0.85:
        return rng.choice(CUSTOM_NAMES)
    return rng.choice(BLOCK_NAMES + INLINE_NAMES)


# ------------------------------------------------------------------ doubles
class ReprObj:
    """Self-rendering object."""

    def __init__(self, s: str):
        self.s = s
        self.calls = 0

    def _repr_html_(self) -> str:
        self.calls += 1
        return self.s

    def __eq__(self, other):  # a user-defined value object
        return type(other) is type(self) and other.s == self.s

    __hash__ = None


class IterableRepr(ReprObj):
    """A self-rendering object that can also be iterated (a data-frame-like object: iteration yields its column labels). As a child
    it is ONE self-rendering object."""

    def __iter__(self):
        return iter(["column a", "column b"])

    def __len__(self):
        return 2


class TF:
    """Tagifiable whose tagify() returns a freshly built (already tagified) payload."""

    def __init__(self, payload_recipes, ret):
        self.payload_recipes = payload_recipes
        self.ret = ret
        self.calls = 0

    def tagify(self):
        self.calls += 1
        kids = [build(r) for r in self.payload_recipes]
        if self.ret == "list":
            return ht.TagList(*kids).tagify()
        one = kids[0]
        if hasattr(one, "tagify"):
            return one.tagify()
        return one


class TFObj(TF):
    def __init__(self, payload_recipes, ret, s):
        super().__init__(payload_recipes, ret)
        self.s = s

    def __eq__(self, other):  # a user-defined value object (like ReprObj)
        return type(other) is type(self) and other.s == self.s and other.ret == self.ret and other.payload_recipes == self.payload_recipes

    __hash__ = None

    def _repr_html_(self) -> str:
        return self.s


class SubTag(ht.Tag):
    """A user subclass of Tag behaves like a Tag everywhere."""


class FixedNameTag(ht.Tag):
    """A user subclass with its own constructor signature (the element name is fixed by the class)."""

    def __init__(self, *args, _add_ws=True, **kwargs):
        super().__init__("x-card", *args, _add_ws=_add_ws, **kwargs)


class SubDep(ht.HTMLDependency):
    """A user subclass of HTMLDependency is a dependency like any other."""


class CellsList(list):
    """A list subclass that can display itself."""

    def _repr_html_(self):
        return "<table>...</table>"


class PairTuple(tuple):
    """A tuple subclass (think of a namedtuple) with a tagify() method."""

    def tagify(self):
        return ht.TagList(*self)


class OwnCtorDep(ht.HTMLDependency):
    """The usual way a component library ships its assets: a subclass with its own constructor signature and a field of its own."""

    def __init__(self, definition, theme="light"):
        super().__init__(**definition)
        self.theme = theme


class SubMeta(ht.MetadataNode):
    def __init__(self):
        self.payload = ["user data"]


class ReprInt(int):
    def __repr__(self):
        return "<ReprInt %d>" % int(self)

    def __str__(self):
        return int.__repr__(self)


class ReprFloat(float):
    def __repr__(self):
        return "<ReprFloat %r>" % float(self)

    def __str__(self):
        return float.__repr__(self)


class FormatStr(str):
    """A str subclass (an enum-with-str-mixin style value) whose str() / format() / repr() are NOT its text: as an attribute value
    or child it is the text it holds."""

    def __str__(self):
        return "FormatStr.MEMBER"

    def __format__(self, spec):
        return "FormatStr.MEMBER"

    def __repr__(self):
        return "<FormatStr.MEMBER>"


class MoneyFloat(float):
    """A number (float subclass) that can also draw itself: as a child it is a number - its str() text."""

    def _repr_html_(self):
        return "<b>&euro; %s</b>" % float.__repr__(self)


class CountInt(int):
    """A number (int subclass) that is also tagifiable: as a child it is a number."""

    def tagify(self):
        return ht.TagList("count: ", int.__repr__(self))


class MappingComponent(__import__("collections").UserDict):
    """A tagifiable component that is also a (non-dict) Mapping: passed to an element it is a CHILD, not an attribute dict."""

    def tagify(self):
        return ht.TagList(*["%s=%s" % kv for kv in self.data.items()])

    def __eq__(self, other):
        return self is other

    __hash__ = None


class BadRepr:
    """Not a child value - and it cannot even be described: repr() and str() of it raise (a proxy to a closed resource, a
    half-initialised object)."""

    def __repr__(self):
        raise RuntimeError("repr() of this object fails")

    __str__ = __repr__


class AnswersEverything:
    """Not a child value: it has no tagify / _repr_html_ of its own, it merely answers every attribute name dynamically."""

    def __getattr__(self, name):
        if name.startswith("__"):
            raise AttributeError(name)
        return lambda *a, **kw: "<i>made up on the spot</i>"


class NoRichRepr:
    """Not a child value: `_repr_html_ = None` / `tagify = None` say "I have no such thing"."""

    _repr_html_ = None
    tagify = None


class SingletonMeta(ht.MetadataNode):
    """A metadata node that answers copy() with itself (a process-wide registry entry)."""

    def __copy__(self):
        return self

    def __deepcopy__(self, memo):
        return self


class ResourceMeta(ht.MetadataNode):
    """A user's metadata node that holds things which can be shared but not duplicated (a lock, a generator, a module)."""

    def __init__(self):
        import threading

        self.lock = threading.Lock()
        self.stream = (x for x in ())
        self.module = threading


class ReprMeta(ht.MetadataNode):
    """A metadata node that happens to be self-rendering (e.g. for notebooks): in a tag tree it is still only metadata."""

    def _repr_html_(self):
        return "<b>REPR-OF-METADATA</b>"

    def __copy__(self):
        return ReprMeta()


class ReprDep(ht.HTMLDependency):
    def _repr_html_(self):
        return "<b>REPR-OF-DEPENDENCY</b>"


class StrSub(str):
    """A str subclass (like htmltools' own jsx() strings): still a plain text child."""


class HTMLSub(ht.HTML):
    """An HTML subclass: still trusted markup."""


class DynObj:
    """Instances of ONE class that differ in instance-level protocol methods (tagify / _repr_html_ set on the instance)."""


class TFStr(str):
    """A str subclass that is also tagifiable (expands to its payload)."""

    def __new__(cls, payload_recipes, ret):
        o = super().__new__(cls, "unexpanded-tfstr")
        o.payload_recipes, o.ret = payload_recipes, ret
        return o

    def tagify(self):
        return TF(self.payload_recipes, self.ret).tagify()


class LazyMeta(ht.MetadataNode):
    """A metadata node that is also tagifiable (a lazily resolved dependency)."""

    def __init__(self, payload_recipes, ret):
        self.payload_recipes, self.ret = payload_recipes, ret

    def tagify(self):
        return TF(self.payload_recipes, self.ret).tagify()


class HtmlDunderTF(TF):
    """Tagifiable that also follows the `__html__()` convention of template engines (no _repr_html_): un-expanded, it is an
    un-expanded object."""

    def __html__(self):
        return "<b>markup for a template engine</b>"


class MappingTF(TF, __import__("collections").abc.Mapping):
    """A tagifiable component that also implements Mapping (it is not a dict): given to an element it is a child that expands."""

    _data = {"title": "not an attribute", "id": "nor this"}

    def __getitem__(self, k):
        return self._data[k]

    def __iter__(self):
        return iter(self._data)

    def __len__(self):
        return len(self._data)

    __hash__ = None


class StoredTF(TF):
    """Tagifiable that builds its (already tagified) result once and hands out that same object every time."""

    def tagify(self):
        self.calls += 1
        if not hasattr(self, "_stored"):
            self._stored = super().tagify()
        return self._stored


class SubTagList(ht.TagList):
    """A TagList subclass is a TagList."""


class SubListTF(TF):
    def tagify(self):
        self.calls += 1
        kids = [build(r) for r in self.payload_recipes]
        return SubTagList(*ht.TagList(*kids).tagify())


import collections.abc as _abc


class ExpandingTag(ht.Tag):
    """A user Tag subclass that expands (like any tagifiable) to a TagList of its payload."""

    def __init__(self, payload_recipes):
        super().__init__("unexpanded-expanding-tag")
        self.payload_recipes = payload_recipes

    def tagify(self):
        return ht.TagList(*[build(r) for r in self.payload_recipes]).tagify()


class SeqTF(_abc.Sequence):
    """A tagifiable object that also implements the Sequence protocol (it is one child, not a container of children)."""

    def __init__(self, payload_recipes, ret):
        self._tf = TF(payload_recipes, ret)
        self.payload_recipes, self.ret = payload_recipes, ret

    def __len__(self):
        return 2

    def __getitem__(self, i):
        return ["seq-item-0", "seq-item-1"][i]

    def tagify(self):
        return self._tf.tagify()


class FlakyTF(TF):
    """Tagifiable whose first tagify() call fails; later calls succeed."""

    def tagify(self):
        self.calls += 1
        if self.calls == 1:
            raise RuntimeError("transient failure in tagify()")
        self.calls -= 1
        return super().tagify()


HARNESS_DOUBLES = (ResourceMeta, SingletonMeta, MappingComponent, ReprObj, TF, TFObj, LazyMeta, SeqTF, DynObj)  # (StoredTF etc. are TF subclasses)

_SHARED = {}


def reset_shared():
    """Forget objects built for `share` keys (call before building a new case)."""
    _SHARED.clear()


_LATE = []


def fill_late():
    """Give the `late` self-rendering objects built since the last call their final markup."""
    n = len(_LATE)
    for o, s in _LATE:
        o.s = s
    del _LATE[:]
    return n


# ------------------------------------------------------------------ builder
def _noop_hook(value):
    return None


def build_attr_value(v):
    t = v["t"]
    if t == "str":
        if v.get("sub") == "fmt":
            return FormatStr(v["s"])
        return StrSub(v["s"]) if v.get("sub") else v["s"]
    if t == "html":
        return HTMLSub(v["s"]) if v.get("sub") else ht.HTML(v["s"])
    if t == "num":
        x_ = _num(v["v"])
        if v.get("sub") and type(x_) in (int, float):
            return (ReprInt if type(x_) is int else ReprFloat)(x_)   # str() is the number's text, repr() is something else
        return x_
    if t == "true":
        return True
    if t == "false":
        return False
    if t == "none":
        return None
    if t == "bad":
        # objects that are not attribute values
        import datetime as _dt
        import pathlib as _pl
        return {"date": lambda: _dt.date(2024, 2, 29), "datetime": lambda: _dt.datetime(2024, 2, 29, 12, 30), "time": lambda: _dt.time(12, 30),
                "path": lambda: _pl.PurePosixPath("a/b.png"), "list": lambda: ["a", "b"], "tuple": lambda: ("a", "b"), "dict": lambda: {"k": "v"}, "bytes": lambda: b"raw",
                "object": object, "set": lambda: {"a"}, "fraction": lambda: __import__("fractions").Fraction(1, 2), "decimal": lambda: __import__("decimal").Decimal("1.5"),
                "complex": lambda: 1j, "callable": lambda: (lambda: "x"), "uuid": lambda: __import__("uuid").UUID(int=5), "timedelta": lambda: _dt.timedelta(seconds=90),
                # library objects where a value is expected (the labelled control itself for for=, a fragment, a dependency)
                "tag": lambda: ht.Tag("input", id="email", type="email"), "taglist": lambda: ht.TagList("email"), "dep": lambda: ht.HTMLDependency("d", "1.0"),
                "tagfunction": lambda: ht.tags.input}[v["v"]]()
    raise ValueError(t)


def _num(v):
    if v == "nan":
        return float("nan")
    if v == "inf":
        return float("inf")
    if v == "-inf":
        return float("-inf")
    return v


def build(r):
    sh = r.get("share") if isinstance(r, dict) else None
    if sh is not None:
        if sh not in _SHARED:
            _SHARED[sh] = _build(r)
        return _SHARED[sh]
    return _build(r)


def build_root(r):
    """Top-level build of one case: objects marked `share` are shared within it, not across cases."""
    reset_shared()
    return build(r)


def _build(r):
    k = r["k"]
    if k == "text":
        return StrSub(r["s"]) if r.get("sub") else r["s"]
    if k == "num":
        if r.get("proto"):
            x_ = _num(r["v"])
            return MoneyFloat(x_) if isinstance(x_, float) else CountInt(x_)
        return _num(r["v"])
    if k == "mapcomp":
        return MappingComponent({"title": "not an attribute", "id": "still a child"})
    if k == "html":
        return HTMLSub(r["s"]) if r.get("sub") else ht.HTML(r["s"])
    if k == "obj":
        if r.get("late"):
            # the object gets its final markup only after it was placed in the tree (fill_late()): what is rendered is what
            # the object returns when the tree is rendered
            o = ReprObj("<u>not filled in yet</u>")
            _LATE.append((o, r["s"]))
            return o
        if r.get("iterable"):
            return IterableRepr(r["s"])
        if r.get("also_tagifiable"):
            # self-rendering AND tagifiable (a component class with a notebook preview): asked for markup directly, it is a
            # self-rendering object like any other
            return TFObj([], "list", r["s"])
        o = ReprObj(r["s"])
        if r.get("taglike"):
            # a value object of the application that happens to have fields named like a tag's; it is a self-rendering
            # object all the same
            o.add_ws, o.name, o.children, o.attrs = True, (r["taglike"] if isinstance(r["taglike"], str) else "div"), [], {}
        return o
    if k == "meta":
        if r.get("repr"):
            return ReprMeta()
        if r.get("resource"):
            return ResourceMeta()
        if r.get("singleton"):
            return SingletonMeta()
        if r.get("sub"):
            return SubMeta()
        return ht.MetadataNode()
    if k == "none":
        return None
    if k == "dep":
        return build_dep(r)
    if k == "headc":
        return ht.head_content(*[build(c) for c in r["c"]])
    if k == "tf":
        if r.get("as") == "str":
            return TFStr(r["c"], r.get("ret", "list"))
        if r.get("as") == "meta":
            return LazyMeta(r["c"], r.get("ret", "list"))
        if r.get("as") == "flaky":
            return FlakyTF(r["c"], r.get("ret", "list"))
        if r.get("as") == "tagsub":
            return ExpandingTag(r["c"])
        if r.get("as") == "inst":
            o = DynObj()
            tf_ = TF(r["c"], r.get("ret", "list"))
            o.tagify = tf_.tagify
            o.payload_recipes = r["c"]
            return o
        if r.get("as") == "seq":
            return SeqTF(r["c"], r.get("ret", "list"))
        if r.get("as") == "stored":
            return StoredTF(r["c"], r.get("ret", "list"))
        if r.get("as") == "htmldunder":
            return HtmlDunderTF(r["c"], r.get("ret", "list"))
        if r.get("as") == "mapping":
            return MappingTF(r["c"], r.get("ret", "list"))
        if r.get("as") == "sublist":
            return SubListTF(r["c"], "list")
        return TF(r["c"], r.get("ret", "list"))
    if k == "tfobj":
        return TFObj(r["c"], r.get("ret", "list"), r["s"])
    if k == "list":
        kids = [build(c) for c in r["c"]]
        t = r.get("t", "list")
        if t == "list":
            return kids
        if t == "tuple":
            return tuple(kids)
        if t == "listrepr":
            return CellsList(kids)       # a list subclass that notebooks can display: still a list of children
        if t == "tupletf":
            return PairTuple(kids)       # a tuple subclass with a tagify() method: still a tuple of children
        return ht.TagList(*kids)
    if k == "tag":
        return build_tag(r)
    if k == "dup":
        one = build(r["c"])
        return [one, [one]] + [one] * (r["n"] - 2) if r.get("nest") else [one] * r["n"]
    if k == "inst":
        o = DynObj()
        if r["has"] == "tagify":
            o.tagify = lambda: ht.TagList("dyn")
        elif r["has"] == "repr":
            o._repr_html_ = lambda: "<i>dyn</i>"
        return o
    if k == "bad":
        t = r["t"]
        return {"object": object, "dict": lambda: {"a": 1}, "bytes": lambda: b"xy", "set": lambda: {1, 2},
                "range": lambda: range(2), "complex": lambda: 1j, "type": lambda: int,
                # numbers that are neither int nor float are not child values
                "fraction": lambda: __import__("fractions").Fraction(1, 2), "decimal": lambda: __import__("decimal").Decimal("1.5"),
                "bytearray": lambda: bytearray(b"ab"), "memoryview": lambda: memoryview(b"ab"), "frozenset": lambda: frozenset([1]),
                "generator": lambda: (x for x in ("g1", "g2")), "iterator": lambda: iter(["i1", "i2"]), "map": lambda: map(str, [1, 2]),
                "dictkeys": lambda: {"k1": 1}.keys(), "dictitems": lambda: {"k1": 1}.items(), "enumerate": lambda: enumerate(["e"]),
                "answers_everything": AnswersEverything, "no_rich_repr": NoRichRepr,
                "badrepr": BadRepr, "tagfunction": lambda: ht.tags.hr, "listclass": lambda: ht.TagList, "boundmethod": lambda: ht.div().append, "strclass": lambda: str,
                "function": lambda: (lambda: "x"), "exception": lambda: ValueError("v"), "module": lambda: __import__("json")}[t]()
    raise ValueError(k)


def build_dep(r):
    kw = {}
    for f in ("source", "script", "stylesheet", "meta", "all_files"):
        if f in r:
            kw[f] = _deepcopy_json(r[f])
    if "head" in r and r["head"] is not None:
        h = r["head"]
        if isinstance(h, str):
            kw["head"] = h
        elif isinstance(h, dict):
            # head given as ONE object: {"as": "html" | "tag" | "taglist", ...}
            kw["head"] = ht.HTML(h["s"]) if h["as"] == "html" else build(h["node"]) if h["as"] == "tag" else ht.TagList(*[build(c) for c in h["c"]])
        else:
            kw["head"] = [build(c) for c in h]
    ver = r["version"]
    if r.get("version_object"):
        from packaging.version import Version
        ver = Version(ver)
    if r.get("sub") and sum(map(ord, r["name"] + str(r.get("version")))) % 2:
        return OwnCtorDep({"name": r["name"], "version": ver, **kw}, theme="dark")
    return (SubDep if r.get("sub") else ht.HTMLDependency)(r["name"], ver, **kw)  # (keys such as _mark / nofs are harness-only)


def _deepcopy_json(x):
    if isinstance(x, dict):
        return {k: _deepcopy_json(v) for k, v in x.items()}
    if isinstance(x, list):
        return [_deepcopy_json(v) for v in x]
    return x


def tag_function(name):
    f = getattr(ht.tags, name, None)
    if f is not None and callable(f) and getattr(f, "__module__", "") == "htmltools.tags":
        return f
    return None


def build_tag(r):
    t = _build_tag(r)
    if any(c.get("nodelist") is not None for c in r.get("c", []) if isinstance(c, dict)):
        # a TagList that is itself a NODE of the child list (only item assignment keeps it whole): a self-rendering object
        # whose markup is the list's own rendering
        kids = flat_children(r)
        if len(kids) == len(t.children):
            for i, c in enumerate(kids):
                if c.get("nodelist") is not None:
                    t.children[i] = ht.TagList(*[build(x) for x in c["nodelist"]])
    return t


def _build_tag(r):
    name = r["name"]
    ws = r.get("ws", True)
    how = r.get("how", "ctor")
    kids = [build(c) for c in r.get("c", [])]
    attrs = r.get("attrs", [])
    f = tag_function(name) if r.get("via_fn", True) and not r.get("svg") else None
    if r.get("svg"):
        f = getattr(ht.svg, name)
    if r.get("subclass"):
        f = None
    if r.get("subclass") and name == "x-card":
        base = lambda _n, *a, **kw: FixedNameTag(*a, **kw)   # noqa: E731  (the class supplies the name)
    else:
        base = SubTag if r.get("subclass") else ht.Tag
    mk = (lambda *a, **kw: f(*a, _add_ws=ws, **kw)) if f else (lambda *a, **kw: base(name, *a, _add_ws=ws, **kw))
    # attributes: each attribute by dict (keeps arbitrary names and order)
    attr_args = [{n: build_attr_value(v)} for n, v in attrs]
    if how == "ctor":
        return mk(*attr_args, *kids)
    if how == "ctor_mixed":  # attribute dicts interleaved after children
        return mk(*kids, *attr_args)
    if how == "nested":
        return mk(*attr_args, [kids[: len(kids) // 2], tuple(kids[len(kids) // 2:])])
    if how == "append":
        t = mk(*attr_args)
        for c in kids:
            t.append(c)
        return t
    if how == "append_many":
        t = mk(*attr_args)
        if kids:
            t.append(*kids)
        return t
    if how == "extend":
        t = mk(*attr_args)
        t.extend(kids)
        return t
    if how == "insert":
        t = mk(*attr_args)
        for c in reversed(kids):
            t.insert(0, c)
        return t
    if how == "taglist":
        return mk(*attr_args, ht.TagList(*kids))
    if how == "toggle_ws":  # built with the other flag, flag set afterwards
        t = (f(*attr_args, *kids, _add_ws=not ws) if f else base(name, *attr_args, *kids, _add_ws=not ws))
        t.add_ws = ws
        return t
    if how == "reassign_children":
        t = mk(*attr_args, "placeholder")
        t.children = ht.TagList(*kids)
        return t
    if how == "slice_children":
        t = mk(*attr_args, "dropped", *kids)
        t.children = t.children[1:]
        return t
    if how == "iadd":
        t = mk(*attr_args)
        t.children += kids
        return t
    if how == "setitem_last":
        # the last child arrives by item assignment over a placeholder
        single = ("text", "tag", "html", "obj", "dep", "meta", "headc", "tfobj")
        if not kids or r["c"][-1]["k"] not in single or (r["c"][-1]["k"] == "text" and r["c"][-1].get("sub")):
            return mk(*attr_args, *kids)
        t = mk(*attr_args, *kids[:-1], "placeholder-child")
        t.children[-1] = kids[-1]
        return t
    if how == "after_rejected_extend":
        # a batch that is refused (unsupported object among valid ones) must leave no trace; then the real children arrive
        t = mk(*attr_args)
        for attempt in (lambda: t.extend(["junk-a", ht.Tag("i", "junk"), object(), "junk-b"]), lambda: t.append("junk-c", {1, 2}),
                        lambda: t.insert(0, ["junk-d", b"bytes"])):
            try:
                attempt()
            except TypeError:
                pass
        t.extend(kids)
        return t
    if how == "sum_with_empty_is_new":
        # `children + []` (and `[] + children`) are new lists: changing them leaves the tag alone
        t = mk(*attr_args, *kids)
        for alias in (t.children + [], [] + t.children, t.children + ht.TagList(), t.children[:], t.children * 1):
            # (if an operation handed back the tag's own list, the junk shows up in the tag - which is the point)
            alias.append("junk-added-to-a-derived-list")
            alias.insert(0, ht.Tag("junk"))
        return t
    if how == "attrs_from_template":
        # attributes taken from another element's attribute map; the other element is changed afterwards
        tpl = ht.Tag("template-el", *attr_args)
        t = (f(tpl.attrs, *kids, _add_ws=ws) if f else base(name, tpl.attrs, *kids, _add_ws=ws)) if attr_args else mk(*kids)
        tpl.add_class("junk-class")
        tpl.attrs["data-junk"] = "1"
        tpl.attrs.update({"title": "junk"}, id="junk")
        return t
    if how == "used_as_context":
        import sys as _sys

        t = mk(*attr_args, *kids)
        old = _sys.displayhook
        _sys.displayhook = _noop_hook  # one and the same hook object for every build (it is remembered by the tag)
        try:
            with t:
                pass
        finally:
            _sys.displayhook = old
        return t
    if how == "iadd_each":
        # every child arrives through its own `+=` on the child list (a bare string operand for plain text)
        t = mk(*attr_args)
        for k_ in kids:
            if type(k_) is str:
                t.children += k_
            else:
                t.children += [k_]
        return t
    if how == "remove_twin":
        # a sibling that merely STARTS like an earlier element (same name and attributes, one more child) is added next to it
        # and taken out again by value: the by-value list operations address the element that is equal, nothing else
        import copy as _copy

        t = mk(*attr_args, *kids)
        idx = [i for i, c in enumerate(t.children) if isinstance(c, ht.Tag)]
        if idx:
            i = idx[len(idx) // 2]
            twin = _copy.copy(t.children[i])
            twin.append("twin-extra-child")
            t.children.insert(i + 1, twin)
            if t.children.index(twin) != i + 1 or t.children.count(twin) != 1 or twin not in t.children:
                raise AssertionError("children.index()/count()/in do not find the element that was asked for")
            t.children.remove(twin)
        return t
    if how == "class_added_later":
        # part of the class / style value arrives through add_class() / add_style() on the finished element: the value is the
        # same and the attribute keeps its place among the others
        norm = lambda n_: (n_[:-1] if n_.endswith("_") else n_).replace("_", "-")   # noqa: E731
        names = [norm(n_) for n_, _ in attrs]
        for k_, (n_, v_) in enumerate(attrs):
            nn = norm(n_)
            if nn in ("class", "style") and v_["t"] == "str" and not v_.get("sub") and names.count(nn) == 1 and " " in v_["s"]:
                cut = v_["s"].index(" ")
                a_, b_ = v_["s"][:cut], v_["s"][cut + 1:]
                if not a_ or not b_ or (nn == "style" and not (a_.endswith(";") and b_.endswith(";"))):
                    continue
                pre = k_ % 2 == 1
                args2 = list(attr_args)
                args2[k_] = {n_: b_ if pre else a_}
                t = mk(*args2, *kids)
                r_ = (t.add_class if nn == "class" else t.add_style)(a_ if pre else b_, prepend=pre)
                assert r_ is t
                return t
        return mk(*attr_args, *kids)
    if how == "displayed":
        # children added by displaying them inside the element's `with` block (None/Ellipsis would be ignored; self-rendering
        # objects that are not tagifiable are stored as their markup, which renders the same)
        import sys as _sys

        t = mk(*attr_args)
        old = _sys.displayhook
        _sys.displayhook = _noop_hook
        try:
            with t:
                for k in kids:
                    if k is not None:
                        _sys.displayhook(k)
        finally:
            _sys.displayhook = old
        return t
    if how == "insert_neg_list":
        # several nodes inserted at once at a negative index keep their order
        single = ("text", "num", "tag", "html", "obj", "dep", "meta", "headc", "tfobj")
        if len(kids) < 2 or r["c"][-1]["k"] not in single:
            return mk(*attr_args, *kids)  # (the last argument must be exactly one node for index -1 to mean "before it")
        t = mk(*attr_args, kids[0], kids[-1])
        t.insert(-1, list(kids[1:-1]))
        return t
    if how == "extend_iter":
        t = mk(*attr_args)
        t.extend(iter(kids))
        return t
    if how == "iadd_gen":
        t = mk(*attr_args)
        t.children += (k for k in kids)
        return t
    if how == "extend_map":
        t = mk(*attr_args)
        t.children.extend(map(lambda k: k, kids))
        return t
    raise ValueError(how)


HOWS = ["ctor", "ctor", "ctor_mixed", "nested", "append", "append_many", "extend", "insert", "taglist", "toggle_ws", "reassign_children",
        "slice_children", "iadd", "insert_neg_list", "extend_iter", "iadd_gen", "extend_map", "used_as_context", "setitem_last", "after_rejected_extend", "sum_with_empty_is_new", "attrs_from_template", "remove_twin", "class_added_later", "iadd_each"]


# ------------------------------------------------------------------ recipe helpers
def T(s):
    return {"k": "text", "s": s}


def H(s):
    return {"k": "html", "s": s}


def O(s):
    return {"k": "obj", "s": s}


def M():
    return {"k": "meta"}


def TAG(name, *c, ws=True, attrs=None, how="ctor", **kw):
    d = {"k": "tag", "name": name, "ws": ws, "attrs": attrs or [], "c": list(c), "how": how}
    d.update(kw)
    return d


def walk(r):
    """Pre-order iteration over every recipe node."""
    yield r
    for c in r.get("c", []) if isinstance(r, dict) else []:
        yield from walk(c)
    if isinstance(r, dict) and r.get("k") == "dep" and isinstance(r.get("head"), list):
        for c in r["head"]:
            yield from walk(c)


def size(r) -> int:
    return sum(1 for _ in walk(r))


def is_meta_kind(r) -> bool:
    return r["k"] in ("meta", "dep", "headc")


# ------------------------------------------------------------------ random trees
DEFAULT_KINDS = {"tag": 5, "text": 4, "num": 1}


def rand_attrs(rng, n_max=4, hostile=True):
    out = []
    for _ in range(rng.randint(0, n_max) if rng.random() < 0.6 else 0):
        name = rng.choice(ATTR_NAMES)
        r = rng.random()
        if name == "style" and r < 0.3:
            v = {"t": "str", "s": " ".join("%s:%s;" % (rng.choice(["color", "margin", "--v"]), rng.choice(["red", "0", "1px 2px"])) for _ in range(rng.randint(1, 3)))}
        elif r < 0.7:
            v = {"t": "str", "s": text_of(rng) if hostile else rng.choice(WORDS)}
        elif r < 0.8:
            v = {"t": "num", "v": rng.choice([0, 1, 42, -7, 1.5, 1234567.0, 10**12])}
        elif r < 0.9:
            v = {"t": "true"}
        else:
            v = {"t": "html", "s": rng.choice(["h", "a&amp;b", "x y", "50%"])}
        out.append([name, v])
    return out


def rand_tree(rng, depth=4, kinds=None, names=tag_name, max_children=5, attrs=True, hows=True,
              text=text_of, ws=None, leaf_hook=None, root_tag=True):
    """Random recipe.  kinds: weights over tag/text/num/html/obj/meta/dep/tf/list."""
    kinds = kinds or DEFAULT_KINDS
    ks = list(kinds)
    wts = [kinds[k] for k in ks]

    def node(d, force_tag=False):
        k = "tag" if force_tag else rng.choices(ks, wts)[0]
        if k in ("tag", "list", "tf") and d <= 0:
            k = "text"
        if k == "tag":
            name = names(rng)
            n = rng.randint(0, max_children) if rng.random() < 0.85 else 0
            kids = [node(d - 1) for _ in range(n)]
            if kids and rng.random() < 0.06:
                # the very same argument object (a container or a tag) supplied twice
                again = rng.choice(kids)
                if again["k"] in ("tag", "list"):
                    again.setdefault("share", "rt%d" % rng.randrange(10**9))
                    kids.insert(rng.randint(0, len(kids)), again)
            if name in ("script", "style"):
                kids = [{"k": "text", "s": rng.choice(WORDS)} for _ in range(min(n, 2))]
            r = {"k": "tag", "name": name, "ws": (rng.random() < 0.5) if ws is None else ws(rng, name),
                 "attrs": rand_attrs(rng) if attrs else [], "c": kids,
                 "how": rng.choice(HOWS) if hows else "ctor"}
            if rng.random() < 0.3:
                r["via_fn"] = False
            if rng.random() < 0.05:
                r["subclass"] = True
                if rng.random() < 0.5 and name not in ("script", "style"):
                    r["name"] = "x-card"   # a subclass that fixes its element name
            return r
        if k == "text":
            return {"k": "text", "s": text(rng)}
        if k == "num":
            return {"k": "num", "v": number_of(rng)}
        if k == "html":
            return {"k": "html", "s": leaf_hook(rng, "html") if leaf_hook else "<i>h</i>"}
        if k == "obj":
            r_ = {"k": "obj", "s": leaf_hook(rng, "obj") if leaf_hook else "<u>o</u>"}
            if rng.random() < 0.25:
                r_["taglike"] = True
            return r_
        if k == "meta":
            return {"k": "meta", "sub": True} if rng.random() < 0.3 else {"k": "meta"}
        if k == "dep":
            d_ = {"k": "dep", "name": rng.choice(["da", "db", "dc"]), "version": rng.choice(["1.0", "1.1", "2.0"])}
            if rng.random() < 0.2:
                d_["sub"] = True
            if rng.random() < 0.2:
                d_["version_object"] = True
            return d_
        if k == "list":
            return {"k": "list", "t": rng.choice(["list", "tuple", "taglist"]),
                    "c": [node(d - 1) for _ in range(rng.randint(0, 3))]}
        if k == "tf":
            ret = rng.choice(["list", "list", "one"])
            n = rng.randint(0, 3) if ret == "list" else 1
            return {"k": "tf", "ret": ret, "c": [node(d - 1) for _ in range(n)]}
        raise ValueError(k)

    return node(depth, force_tag=root_tag)


def flat_children(r):
    """Model children of a tag/list recipe with container recipes spliced and None dropped."""
    out = []
    for c in r.get("c", []):
        if c["k"] == "list":
            out.extend(flat_children(c))
        elif c["k"] == "none":
            continue
        else:
            out.append(c)
    return out


def leaf_text(r) -> str:
    if r["k"] == "text":
        return r["s"]
    if r["k"] == "num":
        return str(_num(r["v"]))
    raise ValueError(r["k"])


def unshare(r):
    """Deep copy of a recipe without object sharing (for checks that edit recipes by path)."""
    import json as _json

    def strip(x):
        if isinstance(x, dict):
            return {k: strip(v) for k, v in x.items() if k != "share"}
        if isinstance(x, list):
            return [strip(v) for v in x]
        return x

    return strip(_json.loads(_json.dumps(r)))
