"""Run context, verdict discipline, evidence, known findings, sharding."""

from __future__ import annotations

import hashlib
import json
import os
import random
import subprocess
import sys
import time
from collections import Counter

VERIF = os.path.dirname(os.path.dirname(os.path.abspath(__file__)))
EVIDENCE_DIR = os.environ.get("HV_EVIDENCE_DIR") or os.path.join(VERIF, "evidence")
REPLAY_DIR = os.environ.get("HV_REPLAY_DIR") or os.path.join(VERIF, "replay")
KNOWN_FILE = os.path.join(VERIF, "known_findings.json")

MAX_WITNESS_PER_KEY = 3
MAX_SAMPLES = 6


def digest(obj) -> str:
    return hashlib.sha1(json.dumps(obj, sort_keys=True, default=repr).encode()).hexdigest()[:16]


def jsonable(x, depth=0):
    """Best-effort conversion of witness material to JSON."""
    if depth > 12:
        return repr(x)[:200]
    if x is None or isinstance(x, (bool, int, float, str)):
        if isinstance(x, float) and x != x:
            return "nan"
        if isinstance(x, float) and x in (float("inf"), float("-inf")):
            return repr(x)
        return x
    if isinstance(x, (list, tuple)):
        return [jsonable(y, depth + 1) for y in x]
    if isinstance(x, (set, frozenset)):
        return sorted((jsonable(y, depth + 1) for y in x), key=repr)
    if isinstance(x, dict):
        return {str(k): jsonable(v, depth + 1) for k, v in x.items()}
    return repr(x)[:500]


class Inconclusive(Exception):
    pass


class Ctx:
    def __init__(self, prop: str, tier: str, seed: int, shard: int = 0, nshards: int = 1):
        self.prop = prop
        self.tier = tier
        self.seed = seed
        self.shard = shard
        self.nshards = nshards
        self.rng = random.Random(f"{prop}/{seed}/{shard}/{nshards}")
        self.counters: Counter = Counter()
        self.states: dict[str, set] = {}
        self.samples: list = []
        self.digests: set = set()
        self.evaluations = 0
        self.violations: list = []  # dicts {key, what, witness}
        self.viol_counts: Counter = Counter()
        self.requirements: list = []  # (counter name, minimum)
        self.forbidden: list = []  # counters that must stay 0, else inconclusive (oracle disagreement)
        self.exhaustive: dict = {}
        self.notes: dict = {}
        self.t0 = time.time()
        self.deadline = None

    # ---- budgets -------------------------------------------------------------------
    @property
    def thorough(self) -> bool:
        return self.tier == "thorough"

    def budget(self, quick: int, thorough: int) -> int:
        """Number of random cases for this shard."""
        total = thorough if self.thorough else quick
        per = total // self.nshards
        if self.shard < total % self.nshards:
            per += 1
        return max(per, 1)

    def mine(self, index: int) -> bool:
        """Does enumerated item `index` belong to this shard?"""
        return index % self.nshards == self.shard

    def out_of_time(self) -> bool:
        return self.deadline is not None and time.time() > self.deadline

    # ---- recording -----------------------------------------------------------------
    def count(self, name: str, n: int = 1):
        self.counters[name] += n

    def state(self, name: str, value):
        self.states.setdefault(name, set()).add(value)

    def case(self, recipe=None, nontrivial: bool = True, dg: str | None = None):
        self.evaluations += 1
        if nontrivial:
            self.digests.add(dg if dg is not None else digest(recipe))

    def sample(self, obj):
        if len(self.samples) < MAX_SAMPLES:
            self.samples.append(jsonable(obj))

    def require(self, name: str, minimum: int = 1):
        self.requirements.append((name, minimum))

    def guard(self, fn, *args, witness=None, key="unexpected-exception"):
        """Run one case; an exception escaping from it is reported as a violation with the
        witness (on the unchanged tree no case raises; a changed library that starts raising
        on valid use is a behaviour change worth reporting, not a harness crash)."""
        try:
            return fn(*args)
        except (KeyboardInterrupt, SystemExit):
            raise
        except Exception as e:
            if type(e).__name__ == "_Watchdog":
                raise
            import traceback

            tb = traceback.format_exc().strip().splitlines()
            self.violation(key, "case raised %r" % (e,), {"case": witness, "traceback": tb[-6:]})
            return None

    def forbid(self, name: str):
        if name not in self.forbidden:
            self.forbidden.append(name)

    def violation(self, key: str, what: str, witness):
        self.viol_counts[key] += 1
        if self.viol_counts[key] <= MAX_WITNESS_PER_KEY:
            self.violations.append({"key": key, "what": what, "witness": jsonable(witness)})

    # ---- (de)serialisation for shards ----------------------------------------------
    def to_partial(self) -> dict:
        return {
            "counters": dict(self.counters),
            "states": {k: sorted((jsonable(v) for v in vs), key=repr) for k, vs in self.states.items()},
            "samples": self.samples,
            "digests": sorted(self.digests),
            "evaluations": self.evaluations,
            "violations": self.violations,
            "viol_counts": dict(self.viol_counts),
            "requirements": self.requirements,
            "forbidden": self.forbidden,
            "exhaustive": self.exhaustive,
            "notes": self.notes,
        }

    def merge_partial(self, p: dict):
        self.counters.update(p["counters"])
        for k, vs in p["states"].items():
            s = self.states.setdefault(k, set())
            for v in vs:
                s.add(_freeze(v))
        for smp in p["samples"]:
            if len(self.samples) < MAX_SAMPLES:
                self.samples.append(smp)
        self.digests.update(p["digests"])
        self.evaluations += p["evaluations"]
        for v in p["violations"]:
            self.violations.append(v)
        self.viol_counts.update(p["viol_counts"])
        for r in p["requirements"]:
            r = tuple(r)
            if r not in self.requirements:
                self.requirements.append(r)
        for n in p.get("forbidden", []):
            self.forbid(n)
        for k, v in p["exhaustive"].items():
            # a sharded enumeration is exhaustive only if every shard completed its slice
            self.exhaustive[k] = self.exhaustive.get(k, True) and v
        self.notes.update(p["notes"])


def _freeze(v):
    if isinstance(v, list):
        return tuple(_freeze(x) for x in v)
    if isinstance(v, dict):
        return tuple(sorted((k, _freeze(x)) for k, x in v.items()))
    return v


# ---- known findings ------------------------------------------------------------------
def load_known():
    try:
        with open(KNOWN_FILE) as f:
            data = json.load(f)
    except FileNotFoundError:
        return {}
    out = {}
    for e in data.get("known", []):
        out[(e["property"], e["key"])] = e
    return out


# ---- finishing -------------------------------------------------------------------------
def finish(ctx: Ctx, mod, inconclusive_reason: str | None = None) -> int:
    known = load_known()
    new = []
    known_hits: Counter = Counter()
    for v in ctx.violations:
        if (ctx.prop, v["key"]) in known:
            known_hits[v["key"]] += 0
        else:
            new.append(v)
    new_keys = [k for k in ctx.viol_counts if (ctx.prop, k) not in known]
    for k in ctx.viol_counts:
        if (ctx.prop, k) in known:
            known_hits[k] = ctx.viol_counts[k]

    # inconclusive: a deciding monitor never reached its minimum
    if inconclusive_reason is None:
        for name, minimum in ctx.requirements:
            if ctx.counters.get(name, 0) < minimum:
                inconclusive_reason = f"monitor '{name}' evaluated {ctx.counters.get(name, 0)} < {minimum} times"
                break
    if inconclusive_reason is None:
        for name in ctx.forbidden:
            if ctx.counters.get(name, 0):
                inconclusive_reason = f"independent oracles disagreed with each other: '{name}' = {ctx.counters[name]}"
                break
    if inconclusive_reason is None and ctx.counters.get("oracle_errors", 0):
        inconclusive_reason = "an oracle raised %d times (harness bug)" % ctx.counters["oracle_errors"]
    if inconclusive_reason is None and ctx.evaluations == 0:
        inconclusive_reason = "no case was executed"

    n_new = sum(ctx.viol_counts[k] for k in new_keys)
    wall = time.time() - ctx.t0
    coverage = {
        "evaluations": ctx.evaluations,
        "distinct_nontrivial": len(ctx.digests),
        "rule": getattr(mod, "RULE", ""),
        "samples": ctx.samples if ctx.samples else ["(no sample recorded)"],
        "monitor_evaluations": dict(sorted(ctx.counters.items())),
        "states_observed": {k: sorted((jsonable(v) for v in vs), key=repr)[:400] for k, vs in sorted(ctx.states.items())},
        "states_observed_counts": {k: len(vs) for k, vs in sorted(ctx.states.items())},
        "exhaustive_subspaces": ctx.exhaustive,
        "exhaustive": False,
        "shards": ctx.nshards,
        "verdict": "inconclusive" if inconclusive_reason else ("violated" if n_new else "held on what was observed"),
        "known_findings_hit": dict(known_hits),
        "new_violation_keys": {k: ctx.viol_counts[k] for k in new_keys},
    }
    coverage.update(ctx.notes)
    if inconclusive_reason:
        coverage["inconclusive_reason"] = inconclusive_reason
    ev = {
        "property_id": ctx.prop,
        "tier": ctx.tier,
        "seed": ctx.seed,
        "level": getattr(mod, "LEVEL", "exploration"),
        "coverage": coverage,
        "assumptions": list(getattr(mod, "ASSUMPTIONS", [])),
        "wall_s": round(wall, 3),
        "violations": n_new,
    }
    os.makedirs(EVIDENCE_DIR, exist_ok=True)
    tmp = os.path.join(EVIDENCE_DIR, f".{ctx.prop}.json.tmp")
    with open(tmp, "w") as f:
        json.dump(ev, f, indent=1, sort_keys=False)
    os.replace(tmp, os.path.join(EVIDENCE_DIR, f"{ctx.prop}.json"))

    for k, n in sorted(known_hits.items()):
        if n:
            print(f"KNOWN-FINDING: property={ctx.prop} {known[(ctx.prop, k)]['what']} [{k}; seen {n}x]")

    print(
        f"{ctx.prop} tier={ctx.tier} seed={ctx.seed} evaluations={ctx.evaluations} "
        f"distinct_nontrivial={len(ctx.digests)} wall={wall:.1f}s"
    )
    if n_new:
        os.makedirs(REPLAY_DIR, exist_ok=True)
        first = {}
        for v in new:
            first.setdefault(v["key"], v)
        for k, v in first.items():
            path = os.path.join(REPLAY_DIR, f"{ctx.prop}-{_slug(k)}-seed{ctx.seed}.json")
            with open(path, "w") as f:
                json.dump({"property": ctx.prop, "seed": ctx.seed, "tier": ctx.tier, **v,
                           "count": ctx.viol_counts[k]}, f, indent=1)
            print(f"  {k}: {v['what'][:300]} ({ctx.viol_counts[k]}x)")
            print(f"VIOLATION property={ctx.prop} replay={path}")
        return 1
    if inconclusive_reason:
        print(f"INCONCLUSIVE property={ctx.prop} reason={inconclusive_reason}")
        return 2
    print(f"HELD property={ctx.prop} (on what was observed)")
    return 0


def _slug(s: str) -> str:
    return "".join(c if c.isalnum() or c in "-_" else "_" for c in s)[:60]


# ---- sharded execution -----------------------------------------------------------------
# Alternative interpreter configurations: the same check once more, on a slice of its workload, in a process that differs
# from the default one in things no property may depend on.
ALT_PASSES = [
    # assert statements stripped, __debug__ false
    ("python -O", ["-O"], {}, False),
    # every warning is an error; variables that notebook / publishing front ends set are present; another working directory
    ("warnings as errors, front-end environment variables, other working directory", ["-W", "error"],
     {"PYTHONWARNINGS": "error", "QUARTO_PROJECT_ROOT": "/quarto/project", "QUARTO_DOCUMENT_PATH": "/quarto/project/doc.qmd", "QUARTO_BIN_PATH": "/opt/quarto/bin",
      "RSTUDIO": "1", "RSTUDIO_PANDOC": "/usr/lib/rstudio/bin/pandoc", "JPY_PARENT_PID": "4242", "JUPYTERHUB_USER": "someone", "VSCODE_PID": "77", "SHINY_PORT": "3838",
      "SHINY_HOST": "0.0.0.0", "PYODIDE": "", "CI": "true", "GITHUB_ACTIONS": "true", "NO_COLOR": "1", "TERM": "dumb", "TZ": "Pacific/Kiritimati", "COLUMNS": "20", "DEBUG": "1",
      "HTMLTOOLS_DEBUG": "1", "BROWSER": "none", "SOURCE_DATE_EPOCH": "0"}, True),
    # everything happens in a worker thread (the library was imported by the main thread, which only waits)
    ("worker thread", [], {"HV_RUN_IN_THREAD": "1"}, False),
    # Python's development mode (extra run-time checks, every warning shown)
    ("python -X dev", ["-X", "dev"], {}, False),
]


def run_alt_pass(which: int, prop: str, tier: str, seed: int, timeout: float):
    """returns (label, partial dict | None, failure reason | None)."""
    import tempfile

    label, flags, extra_env, other_cwd = ALT_PASSES[which]
    tmpdir = tempfile.mkdtemp(prefix=f"hv-{prop}-alt-")
    part = os.path.join(tmpdir, "part.json")
    env = dict(os.environ, PYTHONDONTWRITEBYTECODE="1", HV_OPT_CHILD="1")
    env.setdefault("PYTHONHASHSEED", "0")
    env.pop("PYTHONOPTIMIZE", None)
    env.update(extra_env)
    cwd = VERIF
    if other_cwd:
        cwd = os.path.join(tmpdir, "some other", "working dir")
        os.makedirs(cwd)
        env["PYTHONPATH"] = VERIF + (os.pathsep + env["PYTHONPATH"] if env.get("PYTHONPATH") else "")
    cmd = [sys.executable] + flags + ["-m", "hv", "check", prop, "--tier", "quick", "--seed", str(seed), "--shard", "0/8" if tier == "quick" else "0/2", "--partial", part]
    try:
        p = subprocess.run(cmd, cwd=cwd, env=env, stdout=subprocess.PIPE, stderr=subprocess.STDOUT, text=True, timeout=timeout)
        if p.returncode != 0 or not os.path.exists(part):
            return label, None, f"the pass '{label}' crashed (exit {p.returncode}): {p.stdout[-1500:]}"
        with open(part) as f:
            return label, json.load(f), None
    except subprocess.TimeoutExpired:
        return label, None, f"watchdog: the pass '{label}' exceeded the wall-clock limit"
    finally:
        import shutil

        shutil.rmtree(tmpdir, ignore_errors=True)


def run_sharded(prop: str, tier: str, seed: int, nshards: int, timeout: float):
    """Run `nshards` worker subprocesses; returns (list of partial dicts, failure reason|None)."""
    import tempfile

    tmpdir = tempfile.mkdtemp(prefix=f"hv-{prop}-")
    procs = []
    env = dict(os.environ)
    env["PYTHONDONTWRITEBYTECODE"] = "1"
    env.setdefault("PYTHONHASHSEED", "0")
    for i in range(nshards):
        part = os.path.join(tmpdir, f"part{i}.json")
        cmd = [sys.executable, "-m", "hv", "check", prop, "--tier", tier, "--seed", str(seed),
               "--shard", f"{i}/{nshards}", "--partial", part]
        procs.append((part, subprocess.Popen(cmd, cwd=VERIF, env=env, stdout=subprocess.PIPE,
                                             stderr=subprocess.STDOUT, text=True)))
    parts = []
    reason = None
    t_end = time.time() + timeout
    for part, p in procs:
        try:
            out, _ = p.communicate(timeout=max(1.0, t_end - time.time()))
        except subprocess.TimeoutExpired:
            p.kill()
            out, _ = p.communicate()
            reason = reason or "watchdog: a shard exceeded the wall-clock limit"
            continue
        if p.returncode != 0 or not os.path.exists(part):
            reason = reason or f"shard crashed (exit {p.returncode}): {out[-2000:]}"
            continue
        with open(part) as f:
            parts.append(json.load(f))
    import shutil

    shutil.rmtree(tmpdir, ignore_errors=True)
    return parts, reason
