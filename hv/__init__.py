"""hv - runtime-monitoring harness for the py-htmltools properties C01..C20."""
