"""Reference dependency resolution (no htmltools import).

Version order: dot-separated non-negative integers compared numerically, trailing zero
components insignificant (1.10 == 1.10.0 > 1.9)."""

from __future__ import annotations


def vkey(v: str):
    try:
        parts = [int(p) for p in str(v).split(".")]
    except ValueError:
        # a version with a pre-release / post-release / development / local / epoch part: this reference does not order those
        # (the workloads give each of them a name of its own); equal spellings compare equal
        return ("unordered", str(v).strip())
    while parts and parts[-1] == 0:
        parts.pop()
    return tuple(parts)


def resolve(seq, name=lambda d: d[0], version=lambda d: d[1]):
    """seq: document-order sequence of items.  Returns the items kept: one per name, the one
    with the highest version (earliest on ties), names ordered by first occurrence."""
    best = {}
    for it in seq:
        n = name(it)
        if n not in best:
            best[n] = it
        elif vkey(version(it)) > vkey(version(best[n])):
            best[n] = it
    return list(best.values())


def collect(r, out=None):
    """Pre-order document-order collection of dependency recipes from a recipe tree
    (containers spliced; does not descend into a dependency's own head)."""
    if out is None:
        out = []
    k = r["k"]
    if k in ("dep", "headc"):
        out.append(r)
    elif k in ("tag", "list"):
        for c in r["c"]:
            collect(c, out)
    return out
