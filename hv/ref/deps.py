"""Reference dependency resolution (no htmltools import).

Version order: dot-separated non-negative integers compared numerically, trailing zero
components insignificant (1.10 == 1.10.0 > 1.9)."""

from __future__ import annotations


import re as _re

_V = _re.compile(r"^\s*v?(?:(\d+)!)?(\d+(?:\.\d+)*)(?:[-._]?(a|b|c|rc|alpha|beta|pre|preview)[-._]?(\d*))?(?:(?:[-._]?(?:post|rev|r)[-._]?(\d*))|-(\d+))?(?:[-._]?dev[-._]?(\d*))?"
                 r"(?:\+([a-z0-9]+(?:[-._][a-z0-9]+)*))?\s*$", _re.I)
_INF = float("inf")


def vkey(v: str):
    """Version-number order written from the version specification (PEP 440), without the library: epoch, release numbers
    (trailing zeros insignificant), then development < alpha < beta < candidate < final < post-release."""
    m = _V.match(str(v))
    if not m:
        raise ValueError("not a version: %r" % (v,))
    epoch, rel, pre_l, pre_n, post_n, post_dash, dev_n, local = m.groups()
    parts = [int(p) for p in rel.split(".")]
    while parts and parts[-1] == 0:
        parts.pop()
    pre = None
    if pre_l:
        pre = ({"a": 0, "alpha": 0, "b": 1, "beta": 1, "c": 2, "rc": 2, "pre": 2, "preview": 2}[pre_l.lower()], int(pre_n or 0))
    post = int(post_n or 0) if (post_n is not None) else int(post_dash) if post_dash is not None else None
    dev = int(dev_n or 0) if dev_n is not None else None
    if pre is None and post is None and dev is not None:
        pre_key = (-1, 0)          # X.devN sorts before every pre-release of X
    elif pre is None:
        pre_key = (3, 0)           # a final (or post) release sorts after its pre-releases
    else:
        pre_key = pre
    post_key = -1 if post is None else post
    dev_key = _INF if dev is None else dev
    local_key = () if local is None else tuple((1, int(p)) if p.isdigit() else (0, p.lower()) for p in _re.split(r"[-._]", local))
    return (int(epoch or 0), tuple(parts), pre_key, post_key, dev_key, local_key)


def resolve(seq, name=lambda d: d[0], version=lambda d: d[1]):
    """seq: document-order sequence of items.  Returns the items kept: one per name, the one
    with the highest version (earliest on ties), names ordered by first occurrence."""
    best = {}
    for it in seq:
        n = name(it)
        if n not in best:
            best[n] = it
        elif vkey(version(it)) > vkey(version(best[n])):
            best[n] = it
    return list(best.values())


def collect(r, out=None):
    """Pre-order document-order collection of dependency recipes from a recipe tree
    (containers spliced; does not descend into a dependency's own head)."""
    if out is None:
        out = []
    k = r["k"]
    if k in ("dep", "headc"):
        out.append(r)
    elif k in ("tag", "list"):
        for c in r["c"]:
            collect(c, out)
    return out
