"""Independent strict tokenizer for the HTML subset the htmltools writer may emit.

It does not import htmltools.  Grammar accepted (anything else raises Forged):

    data      := any characters except '<'           (raw '&' is allowed here: the
                                                      charref oracle judges references)
    open tag  := '<' NAME ( ' ' ATTR '="' VALUE '"' )* ( '>' | '/>' )
    close tag := '</' NAME '>'
    VALUE     := any characters except '"' '<' '>' CR LF
    raw text  := after <script ...> / <style ...> everything up to the first
                 case-insensitive '</script' / '</style' is one raw text token

Tokens are tuples:
    ("open",  name, [(attr, raw_value), ...], self_closed, start, end)
    ("close", name, start, end)
    ("text",  raw, start, end)
    ("raw",   raw, start, end)              (script/style content)
Case is preserved.  Offsets index the input string.
"""

from __future__ import annotations

import re

NAME_RE = re.compile(r"[A-Za-z][^\s/>=\"'<]*")
ATTR_RE = re.compile(r"[^\s/>=\"'<]+")
RAWTEXT = ("script", "style")


class Forged(Exception):
    def __init__(self, msg: str, pos: int):
        super().__init__(f"{msg} at offset {pos}")
        self.msg = msg
        self.pos = pos


def tokenize(s: str, rawtext=RAWTEXT, strict_attr_value: bool = True):
    toks = []
    i = 0
    n = len(s)
    while i < n:
        lt = s.find("<", i)
        if lt < 0:
            toks.append(("text", s[i:], i, n))
            break
        if lt > i:
            toks.append(("text", s[i:lt], i, lt))
        i = lt
        if s.startswith("</", i):
            m = NAME_RE.match(s, i + 2)
            if not m:
                raise Forged("'</' not followed by a tag name", i)
            j = m.end()
            if j >= n or s[j] != ">":
                raise Forged("malformed end tag", i)
            toks.append(("close", m.group(0), i, j + 1))
            i = j + 1
            continue
        if s.startswith("<!", i) or s.startswith("<?", i):
            raise Forged("comment / declaration / processing instruction", i)
        m = NAME_RE.match(s, i + 1)
        if not m:
            raise Forged("raw '<' in text", i)
        name = m.group(0)
        j = m.end()
        attrs = []
        selfclosed = False
        while True:
            if j >= n:
                raise Forged("unterminated open tag", i)
            if s[j] == ">":
                j += 1
                break
            if s.startswith("/>", j):
                selfclosed = True
                j += 2
                break
            if s[j] != " ":
                raise Forged("unexpected character %r in open tag" % s[j], j)
            j += 1
            am = ATTR_RE.match(s, j)
            if not am:
                raise Forged("missing attribute name", j)
            aname = am.group(0)
            j = am.end()
            if not s.startswith('="', j):
                raise Forged("attribute without =\"", j)
            j += 2
            q = s.find('"', j)
            if q < 0:
                raise Forged("unterminated attribute value", j)
            raw = s[j:q]
            if strict_attr_value:
                for ch in "<>\r\n":
                    if ch in raw:
                        raise Forged("raw %r inside attribute value" % ch, j + raw.index(ch))
            attrs.append((aname, raw))
            j = q + 1
        toks.append(("open", name, attrs, selfclosed, i, j))
        i = j
        if not selfclosed and name.lower() in rawtext:
            m2 = re.compile("</" + re.escape(name), re.I).search(s, i)
            if not m2:
                raise Forged("unterminated raw text element", i)
            if m2.start() > i:
                toks.append(("raw", s[i : m2.start()], i, m2.start()))
            i = m2.start()
    return toks


class Node:
    __slots__ = ("name", "attrs", "children", "selfclosed", "start", "end", "open_end", "close_start")

    def __init__(self, name, attrs, selfclosed, start, open_end):
        self.name = name
        self.attrs = attrs
        self.children = []  # Node | ("text", raw, start, end) | ("raw", raw, start, end)
        self.selfclosed = selfclosed
        self.start = start
        self.open_end = open_end
        self.close_start = None
        self.end = None


def build_tree(toks):
    """Stack-build a forest from tokens; every end tag must match the open element."""
    root = Node("#root", [], False, 0, 0)
    stack = [root]
    for t in toks:
        k = t[0]
        if k == "open":
            node = Node(t[1], t[2], t[3], t[4], t[5])
            stack[-1].children.append(node)
            if t[3]:
                node.end = t[5]
            else:
                stack.append(node)
        elif k == "close":
            if len(stack) == 1:
                raise Forged("end tag </%s> with nothing open" % t[1], t[2])
            top = stack.pop()
            if top.name != t[1]:
                raise Forged("end tag </%s> closes <%s>" % (t[1], top.name), t[2])
            top.close_start = t[2]
            top.end = t[3]
        else:
            stack[-1].children.append(t)
    if len(stack) != 1:
        raise Forged("<%s> never closed" % stack[-1].name, stack[-1].start)
    return root.children


def parse(s: str, **kw):
    return build_tree(tokenize(s, **kw))
