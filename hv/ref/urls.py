"""URL model for dependency files (no htmltools import)."""

from __future__ import annotations

UNRESERVED = set("ABCDEFGHIJKLMNOPQRSTUVWXYZabcdefghijklmnopqrstuvwxyz0123456789_.-~")


def quote(path: str) -> str:
    """Percent-encode everything except unreserved characters and '/'."""
    out = []
    for ch in path:
        if ch in UNRESERVED or ch == "/":
            out.append(ch)
        else:
            out.extend("%%%02X" % b for b in ch.encode("utf-8"))
    return "".join(out)


def unquote(s: str) -> str:
    out = bytearray()
    i = 0
    while i < len(s):
        c = s[i]
        if c == "%" and i + 2 < len(s) + 0 and all(x in "0123456789abcdefABCDEF" for x in s[i + 1:i + 3]) and len(s[i + 1:i + 3]) == 2:
            out.append(int(s[i + 1:i + 3], 16))
            i += 3
        else:
            out.extend(c.encode("utf-8"))
            i += 1
    return out.decode("utf-8")


def join(base: str, rel: str) -> str:
    if base == "":
        return rel
    if base.endswith("/"):
        return base + rel
    return base + "/" + rel


def dep_dir(name: str, version: str, include_version: bool) -> str:
    return name + ("-" + version if include_version else "")


def base_href(dep, lib_prefix, include_version) -> str:
    """dep: recipe dict with name, version, optional source."""
    src = dep.get("source")
    if src is None:
        return ""
    if "href" in src:
        return src["href"]
    d = dep_dir(dep["name"], dep["version"], include_version)
    return join(lib_prefix, d) if lib_prefix else d


def file_url(dep, rel, lib_prefix, include_version) -> str:
    return join(base_href(dep, lib_prefix, include_version), quote(rel))
