"""Reference layout renderer written from the C06 statement and the Tag docstring only
(no htmltools import).  Works on recipes (see hv.gen).  Valid input: inline tags contain
no block tags.

Rules:
  * void + no visible children      -> <name attrs/>
  * no visible children             -> <name attrs></name>
  * exactly one text/HTML child     -> <name attrs>content</name>       (one line)
  * inline tag                      -> open + concatenation of children + close
  * block tag otherwise             -> open tag line; each maximal run of adjacent
                                       non-block children as one line; each block child
                                       recursively; close tag line aligned with the open tag;
                                       children one level (two spaces) deeper; `eol` between lines
  * top-level list                  -> the same sibling rule at level `indent`
  * metadata nodes are invisible
  * text with embedded newlines is content and is not re-indented
"""

from __future__ import annotations

VOID = {"area", "base", "br", "col", "command", "embed", "hr", "img", "input", "keygen",
        "link", "meta", "param", "source", "track", "wbr"}
RAW = {"script", "style"}


def esc_text(s: str) -> str:
    return s.replace("&", "&amp;").replace("<", "&lt;").replace(">", "&gt;")


def esc_attr(s: str) -> str:
    return (esc_text(s).replace('"', "&quot;").replace("'", "&apos;").replace("\r", "&#13;").replace("\n", "&#10;"))


def _num(v):
    if v == "nan":
        return float("nan")
    if v == "inf":
        return float("inf")
    return v


def _flat(children):
    out = []
    for c in children:
        if c["k"] == "list":
            out.extend(_flat(c["c"]))
        elif c["k"] == "none":
            pass
        else:
            out.append(c)
    return out


def visible(r):
    return [c for c in _flat(r.get("c", [])) if c["k"] not in ("meta", "dep", "headc")]


def is_block(c) -> bool:
    return c["k"] == "tag" and c["ws"]


def attrs_str(r) -> str:
    merged: dict[str, tuple] = {}
    for name, v in r.get("attrs", []):
        t = v["t"]
        if t in ("none", "false"):
            continue
        if t == "true":
            s, h = "", False
        elif t == "num":
            s, h = str(_num(v["v"])), False
        elif t == "html":
            s, h = v["s"], True
        else:
            s, h = v["s"], False
        if name.endswith("_"):
            name = name[:-1]
        name = name.replace("_", "-")
        if name in merged:
            ps, ph = merged[name]
            if ph != h:
                ps = ps if ph else esc_attr(ps)
                s = s if h else esc_attr(s)
                h = True
            merged[name] = (ps + " " + s, h)
        else:
            merged[name] = (s, h)
    return "".join(' %s="%s"' % (k, s if h else esc_attr(s)) for k, (s, h) in merged.items())


def content(c, raw=False) -> str:
    k = c["k"]
    if k == "text":
        return c["s"] if raw else esc_text(c["s"])
    if k == "num":
        s = str(_num(c["v"]))
        return s if raw else esc_text(s)
    if k in ("html", "obj"):
        return c["s"]
    raise ValueError(k)


def inline_str(c, raw=False) -> str:
    """Pure concatenation (valid for non-block nodes whose subtree has no block tag)."""
    if c["k"] != "tag":
        return content(c, raw)
    return tag_str(c, 0, "")


def tag_str(r, level: int, eol: str) -> str:
    ind = "  " * level
    name = r["name"]
    op = "<" + name + attrs_str(r)
    kids = visible(r)
    if not kids and name in VOID:
        return ind + op + "/>"
    op += ">"
    close = "</" + name + ">"
    if not kids:
        return ind + op + close
    raw = name in RAW
    if len(kids) == 1 and kids[0]["k"] in ("text", "num", "html"):
        return ind + op + content(kids[0], raw) + close
    if not r["ws"]:
        return ind + op + "".join(inline_str(k, raw) for k in kids) + close
    lines = sibling_lines(kids, level + 1, eol, raw)
    return ind + op + eol + eol.join(lines) + eol + ind + close


def sibling_lines(kids, level: int, eol: str, raw=False):
    lines = []
    run = None
    for k in kids:
        if is_block(k):
            if run is not None:
                lines.append(run)
                run = None
            lines.append(tag_str(k, level, eol))
        else:
            if run is None:
                run = "  " * level
            run += inline_str(k, raw)
    if run is not None:
        lines.append(run)
    return lines


def list_str(items, indent: int = 0, eol: str = "\n", add_ws: bool = True) -> str:
    kids = [c for c in _flat(items) if c["k"] not in ("meta", "dep", "headc")]
    lines = sibling_lines(kids, indent, eol)
    if not add_ws and kids and not is_block(kids[0]):
        # add_ws=False: no whitespace before a leading run of non-block items (the Tag docstring: whitespace is added if
        # either add_ws or the item's own flag asks for it); everything after the first line is laid out as usual
        lines[0] = lines[0][len("  " * indent):]
    return eol.join(lines)


def valid(r, inside_inline=False) -> bool:
    """Inline tags contain no block tags (at any depth)."""
    if r["k"] == "list":
        return all(valid(c, inside_inline) for c in r["c"])
    if r["k"] != "tag":
        return True
    if inside_inline and r["ws"]:
        return False
    return all(valid(c, inside_inline or not r["ws"]) for c in r.get("c", []))
