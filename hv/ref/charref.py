"""Character-reference unit decoder (no htmltools import).

units(raw) splits an escaped string into units: ("lit", ch) or ("ref", text, decoded).
A reference is '&name;', '&#N;' or '&#xH;' and must decode (stdlib html.unescape) to
exactly ONE character different from the reference text itself.

check_escaped(raw, original, eset) returns None when `raw` is a correct escaping of
`original` for the escape set `eset`:
  * every literal unit is not in eset,
  * every reference unit decodes to one character that is in eset,
  * the decoded sequence equals `original`.
Otherwise a short reason string.  Any spelling of a reference is accepted
(&#39; == &apos; == &#x27;).
"""

from __future__ import annotations

import html
import re

TEXT_SET = frozenset("&<>")
ATTR_SET = frozenset("&<>\"'\r\n")

REF_RE = re.compile(r"&(#[0-9]+|#[xX][0-9a-fA-F]+|[A-Za-z][A-Za-z0-9]*);")


def units(raw: str):
    out = []
    i = 0
    n = len(raw)
    while i < n:
        c = raw[i]
        if c == "&":
            m = REF_RE.match(raw, i)
            if m:
                dec = html.unescape(m.group(0))
                if len(dec) == 1 and dec != m.group(0):
                    out.append(("ref", m.group(0), dec))
                    i = m.end()
                    continue
        out.append(("lit", c))
        i += 1
    return out


def check_escaped(raw: str, original: str, eset=TEXT_SET):
    # fast path: nothing to escape and nothing changed
    if raw == original and not (eset & set(original)):
        return None
    us = units(raw)
    if len(us) != len(original):
        return "decoded length %d != original length %d" % (len(us), len(original))
    for k, u in enumerate(us):
        o = original[k]
        if u[0] == "lit":
            if u[1] in eset:
                return "unescaped %r at unit %d" % (u[1], k)
            if u[1] != o:
                return "unit %d is %r, original has %r" % (k, u[1], o)
        else:
            if u[2] not in eset:
                return "reference %s encodes %r which needs no escaping" % (u[1], u[2])
            if u[2] != o:
                return "reference %s decodes to %r, original has %r" % (u[1], u[2], o)
    return None


def consume(raw: str, pos: int, original: str, eset):
    """Consume from raw[pos:] the escaping of `original`; return new pos or raise ValueError."""
    n = len(raw)
    for k, o in enumerate(original):
        if pos >= n:
            raise ValueError("raw value ends before original character %d (%r)" % (k, o))
        c = raw[pos]
        if c == "&":
            m = REF_RE.match(raw, pos)
            if m:
                dec = html.unescape(m.group(0))
                if len(dec) == 1 and dec != m.group(0):
                    if dec not in eset:
                        raise ValueError("reference %s encodes %r which needs no escaping" % (m.group(0), dec))
                    if dec != o:
                        raise ValueError("reference %s decodes to %r, original has %r" % (m.group(0), dec, o))
                    pos = m.end()
                    continue
        if c in eset:
            raise ValueError("unescaped %r at offset %d" % (c, pos))
        if c != o:
            raise ValueError("offset %d is %r, original has %r" % (pos, c, o))
        pos += 1
    return pos


def decode(raw: str) -> str:
    return "".join(u[1] if u[0] == "lit" else u[2] for u in units(raw))
