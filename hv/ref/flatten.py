"""Reference flattening of child arguments (statement of C14), independent of htmltools
except for recognising its container class by name."""

from __future__ import annotations


class Unsupported(TypeError):
    pass


def is_container(x) -> bool:
    return isinstance(x, (list, tuple)) or type(x).__name__ == "TagList" and hasattr(x, "data")


def is_node(x) -> bool:
    """A valid stored element: str, HTML, tag / tagifiable, metadata node, self-rendering object."""
    if isinstance(x, str):
        return True
    if isinstance(x, (int, float, list, tuple)) or x is None or is_container(x):
        return False
    if any(c.__name__ == "MetadataNode" for c in type(x).__mro__):
        return True
    if any(c.__name__ == "HTML" for c in type(x).__mro__):
        return True
    return _has_member(x, "tagify") or _has_member(x, "_repr_html_")


def _has_member(x, name) -> bool:
    """The object itself (its instance dict or its classes) defines `name`, and not as None: what an object answers only
    dynamically through __getattr__ does not make it a tagifiable / self-rendering object, nor does `name = None` (the
    convention for "no rich representation")."""
    import inspect

    try:
        v = inspect.getattr_static(x, name)
    except AttributeError:
        return False
    return v is not None


def flatten(args):
    """Depth-first, left-to-right: containers spliced, None dropped, numbers -> str(),
    strings kept whole; anything else must be a node, otherwise Unsupported."""
    out = []
    for a in args:
        if is_container(a):
            out.extend(flatten(list(a)))
        elif a is None:
            continue
        elif isinstance(a, (int, float)):
            out.append(str(a))
        elif is_node(a):
            out.append(a)
        else:
            raise Unsupported(type(a).__name__)
    return out


def same(live, model) -> bool:
    if len(live) != len(model):
        return False
    for a, b in zip(live, model):
        if isinstance(b, str) and type(b) is str:
            if type(a) is not str or a != b:
                return False
        elif a is not b:
            return False
    return True
