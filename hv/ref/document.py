"""Independent assembly of the document HTMLDocument.render() must produce (recipe level).

assemble(content, kw, lib_prefix, include_version) -> (html tag recipe, resolved dependency recipes)
"""

from __future__ import annotations

import copy
import hashlib

from . import deps as refdeps, layout, urls
from .attrs import norm_name


def T(name, *c, ws=True, attrs=None):
    return {"k": "tag", "name": name, "ws": ws, "attrs": attrs or [], "c": list(c), "how": "ctor", "via_fn": False}


def S(s):
    return {"t": "str", "s": s}


def flat(items):
    out = []
    for c in items:
        if c["k"] == "list":
            out.extend(flat(c["c"]))
        elif c["k"] != "none":
            out.append(c)
    return out


def headc_name(r):
    body = layout.list_str(r["c"])
    return "headcontent_" + hashlib.sha1(body.encode("utf-8")).hexdigest()


def as_dep(r, name_of=None):
    """Normalise dep / headc recipes to a dep-like dict (name, version, fields).  The statement does not fix the
    naming scheme of head_content (only that it is a function of the content, C18), so the caller may supply the
    name the library gave (`name_of`); the sha1-based default documents today's scheme."""
    if r["k"] == "headc":
        return {"k": "dep", "name": (name_of or headc_name)(r), "version": "0.0", "head": list(r["c"]), "_orig": r}
    return r


def _items(v):
    if v is None:
        return []
    return [v] if isinstance(v, dict) else list(v)


def dep_tags(d, lib_prefix, include_version):
    out = []
    for m in _items(d.get("meta")):
        out.append(T("meta", attrs=[[k, S(v)] for k, v in m.items()]))
    for s in _items(d.get("stylesheet")):
        s = dict(s)
        if "rel" not in s:
            s["rel"] = "stylesheet"
        s["href"] = urls.file_url(d, s["href"], lib_prefix, include_version)
        s["rel"] = "stylesheet"
        out.append(T("link", attrs=[[k, S(v)] for k, v in s.items()]))
    for s in _items(d.get("script")):
        s = dict(s)
        s["src"] = urls.file_url(d, s["src"], lib_prefix, include_version)
        out.append(T("script", attrs=[[k, S(v)] for k, v in s.items()]))
    h = d.get("head")
    if isinstance(h, str):
        out.append({"k": "html", "s": h})
    elif h is not None:
        out.extend(copy.deepcopy(flat(h)))
    return out


def merge_kw(attrs, kw):
    """attrs: [[name, val], ...] with distinct normalised names; kw: [[raw, val], ...] (update = replace)."""
    out = [[norm_name(n), v] for n, v in attrs]
    # within the one update(**kw) call, spellings that normalise to the same name are joined by a space ...
    merged = {}
    for raw, v in kw:
        if v["t"] in ("none", "false"):
            continue
        n = norm_name(raw)
        txt = "" if v["t"] == "true" else str(v.get("s", v.get("v")))
        merged[n] = (merged[n] + " " + txt) if n in merged else txt
    # ... and the result replaces an existing attribute (position kept) or is appended
    for n, txt in merged.items():
        v = {"t": "str", "s": txt}
        for item in out:
            if item[0] == n:
                item[1] = v
                break
        else:
            out.append([n, v])
    return out


def assemble(content, kw, lib_prefix="lib", include_version=True, headc_name_of=None):
    items = flat(copy.deepcopy(content))
    if len(items) == 1 and items[0]["k"] == "tag" and items[0]["name"] == "html":
        html = items[0]
        html["c"] = flat(html["c"])
        html["attrs"] = merge_kw(html["attrs"], kw)
        html["how"] = "ctor"
    else:
        if len(items) == 1 and items[0]["k"] == "tag" and items[0]["name"] == "body":
            body = items[0]
        else:
            body = T("body", *items)
        html = T("html", T("head"), body, attrs=merge_kw([], kw))
    # dependencies: document order over the whole <html>, then resolved
    seq = [as_dep(d, headc_name_of) for d in refdeps.collect(html)]
    resolved = refdeps.resolve(seq, name=lambda d: d["name"], version=lambda d: d["version"])
    # head
    hi = None
    for i, c in enumerate(html["c"]):
        if c["k"] == "tag" and c["name"] == "head":
            hi = i
            break
    if hi is None:
        html["c"].insert(0, T("head"))
        hi = 0
    head = html["c"][hi]
    head["c"] = flat(head["c"])
    head["how"] = "ctor"
    new = [T("meta", attrs=[["charset", S("utf-8")]])] + head["c"]
    if resolved:
        new.append(T("script", {"k": "text", "s": ";".join("%s[%s]" % (d["name"], d["version"]) for d in resolved)},
                     attrs=[["type", S("application/html-dependencies")]]))
    for d in resolved:
        new.extend(dep_tags(d, lib_prefix, include_version))
    head["c"] = new
    return html, resolved
