"""Attribute reference model (no htmltools import), shared by C03 and C15.

Values are tracked as *provenance parts*: [("plain"|"html"|"sep", text), ...].
"""

from __future__ import annotations

from . import charref


def norm_name(n: str) -> str:
    if n.endswith("_"):
        n = n[:-1]
    return n.replace("_", "-")


def norm_value(v):
    """v is a value recipe {"t": ...}; returns parts list or None (attribute skipped)."""
    t = v["t"]
    if t in ("none", "false"):
        return None
    if t == "true":
        return [("plain", "")]
    if t == "str":
        return [("plain", v["s"])]
    if t == "html":
        return [("html", v["s"])]
    if t == "num":
        x = v["v"]
        if x is True:
            return [("plain", "")]
        if x is False:
            return None
        if x == "nan":
            x = float("nan")
        elif x == "inf":
            x = float("inf")
        return [("plain", str(x))]
    raise ValueError(t)


class AttrModel:
    def __init__(self):
        self.items: dict[str, list] = {}

    def update(self, dicts, kw=()):
        """dicts: list of lists of (rawname, valrecipe); kw: list of (rawname, valrecipe)."""
        groups = list(dicts)
        if kw:
            groups = groups + [list(kw)]
        attrz: dict[str, list] = {}
        for g in groups:
            for k, v in g:
                parts = v if isinstance(v, list) and (not v or isinstance(v[0], tuple)) else norm_value(v)
                if parts is None:
                    continue
                nm = norm_name(k)
                if nm in attrz:
                    attrz[nm] = attrz[nm] + [("sep", " ")] + parts
                else:
                    attrz[nm] = list(parts)
        for nm, parts in attrz.items():
            self.items[nm] = parts

    def setitem(self, name, v):
        parts = norm_value(v)
        if parts is None:
            return
        self.items[norm_name(name)] = parts

    def add_token_attr(self, attr, v, prepend):
        """add_class / add_style: update({attr: new}, {attr: current}) or the reverse."""
        cur = self.items.get(attr)
        new = norm_value(v)
        groups = []
        a = [(attr, new)] if new is not None else []
        b = [(attr, list(cur))] if cur is not None else []
        groups = [a, b] if prepend else [b, a]
        self.update([g for g in groups])

    def pop(self, name):
        self.items.pop(name, None)

    # ---- views
    def names(self):
        return list(self.items)

    @staticmethod
    def is_html(parts) -> bool:
        return any(k == "html" for k, _ in parts)

    @staticmethod
    def plain_text(parts) -> str:
        return "".join(t for _, t in parts)


def consume_value(raw: str, parts):
    """Check that the raw (between the quotes) attribute value is the parts' rendering.
    Returns None if fine, else a reason."""
    pos = 0
    for kind, text in parts:
        if kind == "html":
            if not raw.startswith(text, pos):
                return "HTML part %r not found verbatim at offset %d" % (text[:40], pos)
            pos += len(text)
        else:  # plain and separators are plain text
            try:
                pos = charref.consume(raw, pos, text, charref.ATTR_SET)
            except ValueError as e:
                return str(e)
    if pos != len(raw):
        return "trailing characters %r after the supplied values" % raw[pos : pos + 40]
    return None
