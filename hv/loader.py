"""Import the library under test from $HV_REPO (default /repo).

The editable install in /venv points at /repo through a meta-path finder that is
*appended* to sys.meta_path, so a plain sys.path entry placed first always wins; the
loader nevertheless verifies where the imported package came from and refuses to run
against anything else.  Nothing is ever written into the repository (no bytecode).
"""

from __future__ import annotations

import os
import sys

sys.dont_write_bytecode = True

REPO = os.path.realpath(os.environ.get("HV_REPO", "/repo"))


def load():
    if REPO not in sys.path[:1]:
        sys.path.insert(0, REPO)
    import htmltools  # noqa: F401

    got = os.path.realpath(os.path.dirname(htmltools.__file__))
    want = os.path.join(REPO, "htmltools")
    if got != want:
        raise SystemExit(f"INCONCLUSIVE reason=htmltools imported from {got}, wanted {want}")
    return htmltools


ht = load()
import htmltools._core as core  # noqa: E402
import htmltools._util as util  # noqa: E402
import htmltools._jsx as jsx_mod  # noqa: E402
from htmltools import tags, svg  # noqa: E402,F401
