"""Self-test of the monitors: apply realistic property-breaking edits to a scratch copy of
the repository, confirm the pinned test-suite still passes there, run the owning
property's check with HV_REPO=<scratch> and expect exit 1.  Results -> mutants/RESULTS.json.
"""

from __future__ import annotations

import json
import os
import shutil
import subprocess
import sys
import tempfile
from concurrent.futures import ThreadPoolExecutor

from .core import VERIF

REPO = os.path.realpath(os.environ.get("HV_REPO", "/repo"))


def load_catalog():
    sys.path.insert(0, os.path.join(VERIF, "mutants"))
    import catalog  # type: ignore

    return catalog.MUTANTS


def _run_one(m, tier):
    scratch = tempfile.mkdtemp(prefix="hv-mut-")
    res = {"id": m["id"], "prop": m["prop"], "desc": m.get("desc", "")}
    try:
        dst = os.path.join(scratch, "repo")
        shutil.copytree(REPO, dst, ignore=shutil.ignore_patterns(".git", "__pycache__", "*.egg-info", ".pytest_cache"))
        for ed in m["edits"]:
            path = os.path.join(dst, ed["file"])
            with open(path) as f:
                src = f.read()
            if src.count(ed["old"]) != 1:
                res["error"] = "pattern occurs %d times in %s" % (src.count(ed["old"]), ed["file"])
                return res
            with open(path, "w") as f:
                f.write(src.replace(ed["old"], ed["new"]))
        env = dict(os.environ, PYTHONDONTWRITEBYTECODE="1", PYTHONPATH=dst, HV_REPO=dst)
        t = subprocess.run([sys.executable, "-m", "pytest", "-q", "-x", "-p", "no:cacheprovider", "tests"],
                           cwd=dst, env=env, capture_output=True, text=True, timeout=600)
        res["tests_pass"] = t.returncode == 0
        if t.returncode != 0:
            res["tests_tail"] = t.stdout[-600:]
        props = m["prop"] if isinstance(m["prop"], list) else [m["prop"]]
        res["checks"] = {}
        for pr in props:
            c = subprocess.run([sys.executable, "-m", "hv", "check", pr, "--tier", tier, "--shards", "1"] if tier == "quick"
                               else [sys.executable, "-m", "hv", "check", pr, "--tier", tier],
                               cwd=VERIF, env=dict(env, HV_EVIDENCE_DIR=os.path.join(scratch, "ev"), HV_REPLAY_DIR=os.path.join(scratch, "rp")),
                               capture_output=True, text=True, timeout=3600)
            keys = [ln.strip() for ln in c.stdout.splitlines() if ln.startswith("  ")]
            res["checks"][pr] = {"exit": c.returncode, "keys": keys[:6]}
            if c.returncode not in (0, 1):
                res["checks"][pr]["tail"] = (c.stdout + c.stderr)[-800:]
        res["killed"] = any(v["exit"] == 1 for v in res["checks"].values())
        return res
    finally:
        shutil.rmtree(scratch, ignore_errors=True)


def benign(names):
    """Behaviour-preserving refactors: all 20 quick checks must exit 0 on each of them."""
    sys.path.insert(0, os.path.join(VERIF, "mutants"))
    import catalog  # type: ignore

    cat = [dict(m, prop=["C%02d" % i for i in range(1, 21)]) for m in catalog.BENIGN if not names or any(n in m["id"] for n in names)]
    with ThreadPoolExecutor(max_workers=4) as ex:
        results = list(ex.map(lambda m: _run_one(m, "quick"), cat))
    ok = True
    for r in results:
        bad = {p: v for p, v in r.get("checks", {}).items() if v["exit"] != 0}
        print(f"{r['id']:40s} {'silent on all 20 checks' if not bad and 'error' not in r else 'ALARM ' + json.dumps(bad)[:600] + r.get('error', '')}"
              + ("" if r.get("tests_pass", True) else " [breaks pinned tests]"))
        ok = ok and not bad and "error" not in r
    with open(os.path.join(VERIF, "mutants", "BENIGN_RESULTS.json"), "w") as f:
        json.dump(results, f, indent=1)
    return 0 if ok else 1


def main(names, tier="quick"):
    if names and names[0] == "benign":
        return benign(names[1:])
    cat = load_catalog()
    if names:
        cat = [m for m in cat if m["id"] in names or m["prop"] in names or any(n in m["id"] for n in names)]
    with ThreadPoolExecutor(max_workers=8) as ex:
        results = list(ex.map(lambda m: _run_one(m, tier), cat))
    ok = True
    for r in results:
        status = "ERROR " + r["error"] if "error" in r else ("killed" if r.get("killed") else "SURVIVED")
        tp = "" if r.get("tests_pass", True) else " [breaks pinned tests]"
        print(f"{r['id']:45s} {status}{tp}  {r.get('checks', '')}")
        if "error" in r or not r.get("killed"):
            ok = False
    if not names:
        with open(os.path.join(VERIF, "mutants", "RESULTS.json"), "w") as f:
            json.dump({"tier": tier, "results": results}, f, indent=1)
    return 0 if ok else 1
