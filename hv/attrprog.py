"""Interpreter for attribute-supplying programs, run against the live library and the
reference model side by side (used by C03 and C15).

case = {"name": tag name, "via": "fn"|"Tag"|"consolidate", "ctor": {"args": [arg...], "kw": [[raw, val]...]},
        "ops": [op...], "children": bool}
arg  = {"d": [[raw, val], ...]}            positional attribute dict
op   = {"op":"update","args":[...],"kw":[...]} | {"op":"setitem","name":raw,"v":val}
     | {"op":"add_class","v":val,"prepend":bool} | {"op":"add_style","v":val,"prepend":bool}
"""

from __future__ import annotations

from .loader import ht
from .gen import build_attr_value, tag_function
from .ref.attrs import AttrModel


def _bv(v):
    if v.get("t") == "html" and v.get("shared"):
        return shared_html(v["s"])
    return build_attr_value(v)


def _d(pairs, kind="dict"):
    d = {k: _bv(v) for k, v in pairs}
    if kind == "ordereddict":
        import collections

        return collections.OrderedDict(d)
    if kind == "userdictlike":
        class AttrsDict(dict):
            pass

        return AttrsDict(d)
    return d


def _dup_free(pairs):
    """A python dict cannot hold the same raw key twice; keep the last like dict literal would."""
    out = {}
    for k, v in pairs:
        out[k] = v
    return list(out.items())


SHARED_HTML = {}   # HTML() constants used by many elements; nothing may ever change them


def shared_html(text):
    if text not in SHARED_HTML:
        SHARED_HTML[text] = ht.HTML(text)
    return SHARED_HTML[text]


def shared_html_intact():
    return [t for t, h in SHARED_HTML.items() if h.data != t]


def failing_attribute_calls(which=None):
    """An attribute-supplying call that is refused; whatever it had collected before failing must not reach any later
    element.  (One call at a time: a second element created here would absorb what the first one left behind.)"""
    calls = (lambda: ht.Tag("x", {"leak-a": "1", "leak-b": "2"}, {"leak-c": ["not", "a", "value"]}),
             lambda: ht.Tag("x", {"leak-d": "1", 5: "non-string name"}),
             lambda: ht.Tag("x", leak_e="1", leak_f=object()),
             lambda: ht.Tag("x", {"leak-g": "1", "leak-h": "2"}, **{"leak-i": {"nested": "dict"}}),
             lambda: ht.Tag("x", {"leak-j": "1"}, {None: "none as a name"}))
    k = (which if which is not None else len(SHARED_HTML)) % len(calls)
    try:
        calls[k]()
    except Exception:
        pass


def run_case(case, step_hook=None):
    if case.get("after_failures"):
        failing_attribute_calls(case["after_failures"] if isinstance(case["after_failures"], int) else None)
    name = case["name"]
    c = case["ctor"]
    model = AttrModel()
    dicts = [_dup_free(a["d"]) for a in c.get("args", [])]
    kw = _dup_free(c.get("kw", []))
    pos = [_d(d, a.get("as", "dict")) for d, a in zip(dicts, c.get("args", []))]
    kids = ["kid"] if case.get("children") else []
    f = tag_function(name) if case.get("via", "fn") in ("fn", "consolidate") else None
    if case.get("via") == "consolidate":
        # the way component libraries split their arguments: consolidate_attrs() first, the element from its results
        attrs_, kids_ = ht.consolidate_attrs(*pos, *kids, **_d(kw))
        tag = f(attrs_, *kids_) if f is not None else ht.Tag(name, attrs_, *kids_)
    elif f is not None:
        tag = f(*pos, *kids, **_d(kw))
    else:
        tag = ht.Tag(name, *pos, *kids, **_d(kw))
    model.update(dicts, kw)
    if step_hook:
        step_hook(tag, model, {"op": "ctor"})
    for op in case.get("ops", []):
        o = op["op"]
        if o == "update":
            dicts = [_dup_free(a["d"]) for a in op.get("args", [])]
            kw = _dup_free(op.get("kw", []))
            live_args = [_d(d) for d in dicts]
            model_args = list(dicts)
            if op.get("self_at") is not None:
                # the element's own attribute map among the arguments (what it holds when the call is made)
                k_ = min(op["self_at"], len(live_args))
                live_args.insert(k_, tag.attrs)
                model_args.insert(k_, [(n_, list(parts_)) for n_, parts_ in model.items.items()])
            tag.attrs.update(*live_args, **_d(kw))
            model.update(model_args, kw)
        elif o == "setitem":
            tag.attrs[op["name"]] = _bv(op["v"])
            model.setitem(op["name"], op["v"])
        elif o == "add_class":
            r = tag.add_class(_bv(op["v"]), prepend=op.get("prepend", False))
            assert r is tag
            model.add_token_attr("class", op["v"], op.get("prepend", False))
        elif o == "remove_class":
            parts = model.items.get("class")
            if parts is not None and AttrModel.is_html(parts):
                continue  # on an HTML()-typed class value the helper works on markup (known finding F7): not driven
            arg = build_attr_value(op["v"])
            r = tag.remove_class(arg)
            assert r is tag
            tok = op["v"]["s"].strip()
            if parts is not None and op["v"]["s"]:
                text = AttrModel.plain_text(parts)
                if text:
                    toks = [t for t in text.split() if t != tok]
                    if toks:
                        model.items["class"] = [("plain", " ".join(toks))]
                    else:
                        model.pop("class")
        elif o == "continue_on_copy":
            # everything that follows happens to a copy of the element (a copy is an element like any other)
            import copy as _copy

            tag = _copy.copy(tag) if op.get("how") == "copy" else tag.tagify()
            if type(tag.attrs) is not type(ht.Tag("x").attrs):
                raise AssertionError("the attribute map of a copied element is a %s" % type(tag.attrs).__name__)
        elif o == "add_style":
            r = tag.add_style(_bv(op["v"]), prepend=op.get("prepend", False))
            assert r is tag
            model.add_token_attr("style", op["v"], op.get("prepend", False))
        else:
            raise ValueError(o)
        if step_hook:
            step_hook(tag, model, op)
    return tag, model
