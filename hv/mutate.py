"""Public-API mutations applied to a live tag and mirrored on its recipe (render - mutate - render histories)."""

from __future__ import annotations

from .loader import ht
from . import gen


def _tags_with_paths(live, r, path=()):
    out = [(live, r)]
    kids = [c for c in live.children]
    rk = gen.flat_children(r)
    if len(kids) == len(rk):
        for lc, rc in zip(kids, rk):
            if isinstance(lc, ht.Tag) and rc["k"] == "tag":
                out.extend(_tags_with_paths(lc, rc))
    return out


def mutate_pair(rng, live, r, benign=False):
    """Apply one public-API mutation to a live tag and mirror it on its recipe; returns a description."""
    from .ref.attrs import norm_name

    t, tr = rng.choice(_tags_with_paths(live, r))
    if tr["name"] in ("script", "style"):
        return None  # raw-text elements: their text is not escaped by design, they are not mutated here
    m = rng.choice(["pop", "del", "clear", "set_new", "append_text", "del_child", "remove_class", "rename", "toggle_ws", "insert_tag", "insert_meta",
                    "reverse_children", "repeat_children", "rotate_children"])
    names = []
    for n, v in tr["attrs"]:
        if v["t"] not in ("none", "false") and norm_name(n) not in names:
            names.append(norm_name(n))
    if m in ("pop", "del") and names:
        nm = rng.choice(names)
        if m == "pop":
            t.attrs.pop(nm)
        else:
            del t.attrs[nm]
        tr["attrs"] = [[n, v] for n, v in tr["attrs"] if norm_name(n) != nm]
    elif m == "clear":
        t.attrs.clear()
        tr["attrs"] = []
    elif m == "remove_class" and "class" in names and all(v["t"] == "str" for n, v in tr["attrs"] if norm_name(n) == "class"):
        # removing every token one by one ends with the attribute being dropped
        for tok in list(dict.fromkeys(str(t.attrs.get("class", "")).split())):
            t.remove_class(tok)
        if "class" in t.attrs:
            return None  # (tokens the helper cannot address; leave the recipe alone and skip)
        tr["attrs"] = [[n, v] for n, v in tr["attrs"] if norm_name(n) != "class"]
    elif m == "set_new":
        val = "mutated" if benign else "m<&>\""
        t.attrs["data-mutated"] = val
        tr["attrs"] = [[n, v] for n, v in tr["attrs"] if norm_name(n) != "data-mutated"] + [["data-mutated", {"t": "str", "s": val}]] \
            if "data-mutated" not in names else tr["attrs"]
        if "data-mutated" in names:
            return None
    elif m == "append_text":
        txt = "added" if benign else "added<&"
        t.append(txt)
        tr["c"] = gen.flat_children(tr) + [{"k": "text", "s": txt}]
    elif m == "del_child" and len(t.children) and len(t.children) == len(gen.flat_children(tr)):
        i = rng.randrange(len(t.children))
        del t.children[i]
        kids = gen.flat_children(tr)
        del kids[i]
        tr["c"] = kids
    elif m == "rename" and tr["name"] not in ("script", "style"):
        t.name = "renamed-el"
        tr["name"] = "renamed-el"
    elif m == "toggle_ws" and benign:
        t.add_ws = not t.add_ws
        tr["ws"] = not tr["ws"]
    elif m == "insert_tag" and len(t.children) == len(gen.flat_children(tr)):
        i = rng.randint(0, len(t.children))
        ws = rng.random() < 0.5 and (tr["ws"] or not benign)
        t.insert(i, ht.Tag("em" if not ws else "section", "ins", _add_ws=ws))
        kids = gen.flat_children(tr)
        kids.insert(i, {"k": "tag", "name": "em" if not ws else "section", "ws": ws, "attrs": [], "c": [{"k": "text", "s": "ins"}], "how": "ctor", "via_fn": False})
        tr["c"] = kids
    elif m == "insert_meta" and len(t.children) == len(gen.flat_children(tr)):
        i = rng.randint(0, len(t.children))
        t.insert(i, ht.HTMLDependency("mutdep", "1.0"))
        kids = gen.flat_children(tr)
        kids.insert(i, {"k": "dep", "name": "mutdep", "version": "1.0"})
        tr["c"] = kids
    elif m == "reverse_children" and len(t.children) == len(gen.flat_children(tr)) and len(t.children) > 1:
        t.children.reverse()
        tr["c"] = gen.flat_children(tr)[::-1]
    elif m == "repeat_children" and not benign and 1 <= len(t.children) <= 8 and len(t.children) == len(gen.flat_children(tr)):
        # the in-place repeat operator: afterwards the list holds its children n times over, in order (the same objects)
        # (the recipe repeats the very same recipe objects, as the list repeats the very same nodes: a later change to one
        #  occurrence is a change to all of them on both sides; layout checks with unique content marks do not use this one)
        n = rng.choice([2, 3, 3, 4])
        kids_live = t.children
        kids_live *= n
        tr["c"] = gen.flat_children(tr) * n
        m = "repeat_children_x%d" % n
    elif m == "rotate_children" and len(t.children) >= 2 and len(t.children) == len(gen.flat_children(tr)) and not isinstance(t.children[0], ht.TagList):
        # (a list stored as a node would be spliced by append(): it is not a node that can be re-appended whole)
        first = t.children.pop(0)
        t.append(first)
        kids = gen.flat_children(tr)
        tr["c"] = kids[1:] + kids[:1]
    else:
        return None
    return m


