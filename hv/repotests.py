"""Run the repository's pinned test-suite under monitors (extra workload for thorough tiers)."""

from __future__ import annotations

import json
import os
import subprocess
import sys
import tempfile

from .core import VERIF
from .loader import REPO


def run_under(ctx, monitors, prefix="repo_tests."):
    fd, out = tempfile.mkstemp(prefix="hv-plugin-", suffix=".json")
    os.close(fd)
    env = dict(os.environ, PYTHONDONTWRITEBYTECODE="1", PYTHONPATH=REPO + os.pathsep + VERIF, HV_REPO=REPO,
               HV_PLUGIN_MONITORS=",".join(monitors), HV_PLUGIN_OUT=out)
    try:
        p = subprocess.run([sys.executable, "-m", "pytest", "-q", "-p", "no:cacheprovider", "-p", "hv.mon.pytest_plugin", "tests"],
                           cwd=REPO, env=env, capture_output=True, text=True, timeout=1200)
        try:
            with open(out) as f:
                part = json.load(f)
        except Exception:
            ctx.notes["repo_tests_under_monitors"] = "plugin produced no output: " + (p.stdout + p.stderr)[-300:]
            return
    finally:
        try:
            os.remove(out)
        except OSError:
            pass
    ctx.notes["repo_tests_under_monitors"] = {"pytest_exit": part.get("pytest_exit"), "monitors": monitors,
                                              "evaluations": {k: v for k, v in part["counters"].items()}}
    for k, v in part["counters"].items():
        ctx.count(prefix + k, v)
    for v in part["violations"]:
        ctx.violation(v["key"], "[under the repository's own tests] " + v["what"], v["witness"])
    for k, n in part["viol_counts"].items():
        # violation() above counted the stored witnesses; add the rest
        extra = n - sum(1 for v in part["violations"] if v["key"] == k)
        if extra > 0:
            ctx.viol_counts[k] += extra
