"""CLI:  python -m hv check <ID> --tier quick|thorough [--seed N] [--replay PATH]"""

from __future__ import annotations

import argparse
import importlib
import json
import os
import signal
import sys
import traceback

sys.dont_write_bytecode = True

from . import core  # noqa: E402


def main(argv=None) -> int:
    ap = argparse.ArgumentParser(prog="hv")
    sub = ap.add_subparsers(dest="cmd", required=True)
    c = sub.add_parser("check")
    c.add_argument("prop")
    c.add_argument("--tier", default=os.environ.get("VERIF_TIER", "quick"), choices=["quick", "thorough"])
    c.add_argument("--seed", type=int, default=int(os.environ.get("VERIF_SEED", "0") or 0))
    c.add_argument("--shard", default=None)
    c.add_argument("--partial", default=None)
    c.add_argument("--replay", default=None)
    c.add_argument("--shards", type=int, default=None)
    m = sub.add_parser("mutants")
    m.add_argument("names", nargs="*")
    m.add_argument("--tier", default="quick")
    args = ap.parse_args(argv)

    if args.cmd == "mutants":
        from . import mutants

        return mutants.main(args.names, args.tier)

    prop = args.prop.upper()
    mod = importlib.import_module(f"hv.checks.{prop.lower()}")

    if args.replay:
        with open(args.replay) as f:
            w = json.load(f)
        ctx = core.Ctx(prop, args.tier, w.get("seed", args.seed))
        if not hasattr(mod, "replay"):
            print("this check has no single-case replay; re-run it with VERIF_SEED=%s" % w.get("seed"))
            return 2
        mod.replay(ctx, w["witness"])
        for v in ctx.violations:
            print("REPRODUCED", v["key"], v["what"])
        return 1 if ctx.violations else 0

    if args.shard is not None:
        i, n = (int(x) for x in args.shard.split("/"))
        ctx = core.Ctx(prop, args.tier, args.seed, i, n)
        _arm_watchdog(mod, args.tier)
        if os.environ.get("HV_RUN_IN_THREAD"):
            # the whole workload in a thread that did not import the library (the main thread only waits)
            import threading

            box = []

            def work():
                try:
                    mod.run(ctx)
                except BaseException as e:  # noqa: BLE001
                    box.append(e)

            th = threading.Thread(target=work, name="hv-worker")
            th.start()
            th.join()
            if box and os.environ.get("HV_OPT_CHILD") and isinstance(box[0], Exception):
                _alt_exception(ctx, box[0])
            elif box:
                raise box[0]
        elif os.environ.get("HV_OPT_CHILD"):
            try:
                mod.run(ctx)
            except (core.Inconclusive, _Watchdog):
                raise
            except Exception as e:
                _alt_exception(ctx, e)
        else:
            mod.run(ctx)
        with open(args.partial, "w") as f:
            json.dump(ctx.to_partial(), f)
        return 0

    nshards = args.shards
    if nshards is None:
        nshards = getattr(mod, "SHARDS", {"quick": 1, "thorough": 16}).get(args.tier, 1)
    limit = getattr(mod, "WATCHDOG_S", {"quick": 600, "thorough": 3600})[args.tier]
    ctx = core.Ctx(prop, args.tier, args.seed, 0, nshards)
    reason = None
    if nshards <= 1:
        ctx.nshards = 1
        try:
            _arm_watchdog(mod, args.tier)
            mod.run(ctx)
            signal.alarm(0)
        except core.Inconclusive as e:
            reason = str(e)
        except _Watchdog:
            reason = "watchdog: wall-clock limit reached"
        except Exception:
            signal.alarm(0)
            traceback.print_exc()
            reason = "harness error: " + traceback.format_exc().strip().splitlines()[-1]
    else:
        parts, reason = core.run_sharded(prop, args.tier, args.seed, nshards, limit)
        for p in parts:
            ctx.merge_partial(p)
    if reason is None and not os.environ.get("HV_OPT_CHILD") and not sys.flags.optimize:
        # once more, on a slice of the workload, in interpreter configurations that differ from the default one in things no
        # property may depend on (asserts stripped; warnings as errors, front-end environment variables, another cwd)
        from concurrent.futures import ThreadPoolExecutor

        skip = set(getattr(mod, "SKIP_ALT_PASSES", ()))
        todo = [k for k in range(len(core.ALT_PASSES)) if k not in skip]
        with ThreadPoolExecutor(max_workers=len(todo) or 1) as ex:
            results = list(ex.map(lambda k: core.run_alt_pass(k, prop, args.tier, args.seed, limit), todo))
        ctx.notes["alternative_interpreter_passes"] = {}
        for label, part, why in results:
            if part is None:
                reason = reason or why
                continue
            for v in part["violations"]:
                v["what"] = v["what"] + " [in the pass: %s]" % label
                ctx.violations.append(v)
            for k, n in part["viol_counts"].items():
                ctx.viol_counts[k] = ctx.viol_counts.get(k, 0) + n
            ctx.notes["alternative_interpreter_passes"][label] = {"evaluations": part["evaluations"], "violation_keys": sorted(part["viol_counts"]),
                                                                  "monitor_evaluations": {k: v for k, v in sorted(part["counters"].items())[:30]}}
            ctx.counters["alt_pass_evaluations"] = ctx.counters.get("alt_pass_evaluations", 0) + part["evaluations"]
            if part["evaluations"] == 0:
                reason = reason or "the pass '%s' executed no case" % label
    return core.finish(ctx, mod, reason)


class _Watchdog(Exception):
    pass


def _alt_exception(ctx, e):
    """In an alternative interpreter configuration the workload of a check - which runs to its end in the default configuration -
    was cut short by an exception: something the property promises does not survive the configuration."""
    tb = traceback.format_exception(type(e), e, e.__traceback__)
    ctx.violation("raises-in-alternative-configuration", "the workload raised %r (it does not in the default configuration)" % (e,),
                  {"traceback_tail": "".join(tb)[-1500:]})


def _arm_watchdog(mod, tier):
    limit = getattr(mod, "WATCHDOG_S", {"quick": 600, "thorough": 3600})[tier]

    def fire(signum, frame):
        raise _Watchdog()

    signal.signal(signal.SIGALRM, fire)
    signal.alarm(int(limit))


if __name__ == "__main__":
    sys.exit(main())
